P = __file__.rsplit("/units/", 1)[0] + "/prelude/"
INV = """invariant
    0 <= it.index@ <= %(n)s,
    infosets@ == inf_mid,
    search_queue@.len() == q0.len() + it.index@,
    search_queue@.take(q0.len() as int) == q0,
    forall|i: int| 0 <= i < it.index@ ==> (#[trigger] search_queue@[q0.len() + i]).0 == &%(kids)s@[i] && %(reach)s,"""
UNIT = dict(
    id="c01_optdev_collect",
    prelude=["floats.rs", "ideal.rs", "std_ext.rs", "infoset_traits.rs"],
    canary_use="broadcast use fl; broadcast use ideal; ax_obeys(); ax_rv_lits();",
    expect=[("src/lib.rs", r"trait PlayerInfoset \{\s*fn num_actions\(&self\) -> usize;\s*fn prev_infoset\(&self\) -> Option<usize>;\s*\}")],
    assumptions=[
        "idealised-real float mode for the reach products (harmless reorderings of operands do not disturb the proof)",
        "BLOCK: ONE iteration of the first pass of optimal_deviations (body of `while let Some((node, reach)) = search_queue.pop()`), free variables as parameters: a STEP contract -- that the pass as a whole visits exactly the nodes reachable under the opponent's strategy is the work-list argument, not proved here",
        "wf: infoset indices in range, probability vectors as long as the child lists (from_root, assumed); pending counters do not overflow usize",
    ],
    items=[
        dict(file="src/lib.rs", path="enum PlayerNum", attrs="#[derive(Copy, Clone)]"),
        dict(raw=open(P + "playernum.rs").read()),
        dict(file="src/lib.rs", path="enum Node"),
        dict(file="src/lib.rs", path="struct Chance", pub_fields=True),
        dict(file="src/lib.rs", path="struct Player", pub_fields=True),
        dict(file="src/regret.rs", path="struct DeviationInfo", pub_fields=True),
        dict(raw="""pub open spec fn own(pl: Player, p1: bool) -> bool { match pl.num { PlayerNum::One => p1, PlayerNum::Two => !p1 } }
// q is q0 followed by the opponent's positive-probability children among the first k, in order, each
// with reach multiplied by its probability
pub open spec fn pushed_pos(q0: Seq<(&Node, f64)>, q: Seq<(&Node, f64)>, kids: Seq<Node>, probs: Seq<f64>, reach: f64, k: int) -> bool
    decreases k
{
    if k <= 0 { q == q0 } else if rv(probs[k - 1]) > 0real {
        q.len() > 0 && q.last().0 == &kids[k - 1] && rv(q.last().1) == rv(probs[k - 1]) * rv(reach)
            && pushed_pos(q0, q.drop_last(), kids, probs, reach, k - 1)
    } else {
        pushed_pos(q0, q, kids, probs, reach, k - 1)
    }
}"""),
        dict(file="src/regret.rs", path="fn optimal_deviations", loop=0,
             header_re=r"^while let Some\(\(node, reach\)\) = search_queue\.pop\(\)",
             as_fn="optimal_deviations__collect_step",
             generics="<'a, const PLAYER_ONE: bool, C: ChanceInfoset, PI: PlayerInfoset, S: AsRef<[f64]>>",
             params="node: &'a Node, reach: f64, mut infosets: Box<[DeviationInfo<'a>]>, mut search_queue: Vec<(&'a Node, f64)>, player_info: &[PI], chance_info: &[C], strat_info: &[S]",
             ret="out", ret_type="(Box<[DeviationInfo<'a>]>, Vec<(&'a Node, f64)>)", exit="(infosets, search_queue)",
             obligation="C01.V.optimal_deviations.collect_step",
             contract="""requires
    infosets@.len() == player_info@.len(),
    match *node {
        Node::Terminal(_) => true,
        Node::Chance(ch) => ch.infoset < chance_info@.len() && chance_info@[ch.infoset as int].probs_view().len() == ch.outcomes@.len(),
        Node::Player(pl) => if own(pl, PLAYER_ONE) {
            pl.infoset < infosets@.len() && match player_info@[pl.infoset as int].prev_infoset_view() {
                Some(p) => p < infosets@.len() && infosets@[p as int].future_nodes < usize::MAX, None => true }
        } else {
            pl.infoset < strat_info@.len() && asref_view::<S, [f64]>(&strat_info@[pl.infoset as int])@.len() == pl.actions@.len()
        },
    },
ensures
    out.0@.len() == infosets@.len(),
    match *node {
        Node::Terminal(_) => out.0@ == infosets@ && out.1@ == search_queue@,
        // chance: every outcome is searched with reach x its probability; bookkeeping untouched
        Node::Chance(ch) => out.0@ == infosets@
            && out.1@.len() == search_queue@.len() + ch.outcomes@.len()
            && out.1@.take(search_queue@.len() as int) == search_queue@
            && forall|i: int| 0 <= i < ch.outcomes@.len() ==> (#[trigger] out.1@[search_queue@.len() + i]).0 == &ch.outcomes@[i]
                && rv(out.1@[search_queue@.len() + i].1) == rv(chance_info@[ch.infoset as int].probs_view()[i]) * rv(reach),
        Node::Player(pl) => if own(pl, PLAYER_ONE) {
            // the deviating player's own node: recorded once under ITS infoset with the opponent/chance
            // reach, counted once as pending for the previous infoset, every action searched with the SAME reach
            out.0@[pl.infoset as int].prob_nodes@ == infosets@[pl.infoset as int].prob_nodes@.push((&pl, reach))
            && (match player_info@[pl.infoset as int].prev_infoset_view() {
                Some(p) => out.0@[p as int].future_nodes == infosets@[p as int].future_nodes + 1
                    && (p != pl.infoset ==> out.0@[p as int].prob_nodes == infosets@[p as int].prob_nodes)
                    && forall|j: int| 0 <= j < infosets@.len() && j != pl.infoset && j != p ==> #[trigger] out.0@[j] == infosets@[j],
                None => out.0@[pl.infoset as int].future_nodes == infosets@[pl.infoset as int].future_nodes
                    && forall|j: int| 0 <= j < infosets@.len() && j != pl.infoset ==> #[trigger] out.0@[j] == infosets@[j],
            })
            && forall|j: int| 0 <= j < infosets@.len() ==> #[trigger] out.0@[j].max_utility == infosets@[j].max_utility
            && out.1@.len() == search_queue@.len() + pl.actions@.len()
            && out.1@.take(search_queue@.len() as int) == search_queue@
            && forall|i: int| 0 <= i < pl.actions@.len() ==> (#[trigger] out.1@[search_queue@.len() + i]).0 == &pl.actions@[i] && out.1@[search_queue@.len() + i].1 == reach
        } else {
            // the opponent's node: only positive-probability actions, reach x probability
            out.0@ == infosets@
            && pushed_pos(search_queue@, out.1@, pl.actions@, asref_view::<S, [f64]>(&strat_info@[pl.infoset as int])@, reach, pl.actions@.len() as int)
        },
    }, // @ob C01.V.optimal_deviations.collect_step""",
             entry="broadcast use fl; broadcast use ideal;\nproof { ax_obeys(); ax_rv_lits(); }\nlet ghost inf0 = infosets@;\nlet ghost q0 = search_queue@;",
             loops={
                 0: dict(kind="for", binder="it", before="let ghost inf_mid = infosets@;",
                         head=INV % dict(n="chance.outcomes@.len()", kids="chance.outcomes", reach="rv(search_queue@[q0.len() + i].1) == rv(probs@[i]) * rv(reach)")
                              + "\n    probs@.len() == chance.outcomes@.len(),",
                         body_start="broadcast use fl; broadcast use ideal;\nproof { ax_obeys(); ax_rv_lits(); }",
                         body_end="proof { assert(rv(reach) * rv(*prob) == rv(*prob) * rv(reach)) by(nonlinear_arith); }"),
                 1: dict(kind="for", binder="it", before="let ghost inf_mid = infosets@;",
                         head=INV % dict(n="player.actions@.len()", kids="player.actions", reach="search_queue@[q0.len() + i].1 == reach"),
                         body_start="broadcast use fl; broadcast use ideal;\nproof { ax_obeys(); ax_rv_lits(); }"),
                 2: dict(kind="for", binder="it", before="let ghost inf_mid = infosets@;",
                         head="""invariant
    0 <= it.index@ <= player.actions@.len(), probs@.len() == player.actions@.len(),
    infosets@ == inf_mid,
    pushed_pos(q0, search_queue@, player.actions@, probs@, reach, it.index@ as int),""",
                         body_start="broadcast use fl; broadcast use ideal;\nproof { ax_obeys(); ax_rv_lits(); }\nlet ghost qb = search_queue@;",
                         body_end="proof { assert(rv(reach) * rv(*prob) == rv(*prob) * rv(reach)) by(nonlinear_arith); if rv(*prob) > 0real { assert(search_queue@.drop_last() =~= qb); } }"),
             }),
    ],
)
