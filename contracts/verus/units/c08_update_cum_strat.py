def loop(expr):
    return dict(kind="for", binder="it",
                head="""invariant
    it.snapshot@.remaining().len() == n,
    0 <= it.index@ <= n,
    zip_iter_snd(it.snapshot@).remaining().len() == n,
    forall|i: int| 0 <= i < n ==> (it.snapshot@.remaining()[i]).1 == #[trigger] zip_iter_snd(it.snapshot@).remaining()[i],
    forall|i: int| 0 <= i < n ==> *(#[trigger] it.snapshot@.remaining()[i]).0 == st[i] && *(it.snapshot@.remaining()[i]).1 == c0[i],
    forall|i: int| 0 <= i < it.index@ ==> rv(*final((#[trigger] it.snapshot@.remaining()[i]).1)) == %(e)s,
ensures
    forall|i: int| 0 <= i < n ==> rv(*final(#[trigger] zip_iter_snd(it.snapshot@).remaining()[i])) == %(e)s,""" % dict(e=expr),
                body_start="broadcast use fl; broadcast use ideal;\nproof { ax_obeys(); ax_rv_lits(); }")
UNIT = dict(
    id="c08_update_cum_strat",
    prelude=["floats.rs", "ideal.rs"],
    canary_use="broadcast use fl; broadcast use ideal; ax_obeys(); ax_rv_lits();",
    assumptions=[
        "idealised-real float mode (so that harmless reorderings of operands do not disturb the proof)",
        "struct invariant strat.len() == cum_strat.len() (established by RegretInfoset::new: Kani harness c05_regret_infoset_new; zip would silently truncate otherwise)",
    ],
    items=[
        dict(raw="""use vstd::std_specs::iter::{zip_iter_snd, zip_iter_fst};
pub trait PlayerRecurse {
    fn update_cum_strat(&mut self, prob: f64);
}
pub trait ExternalInfo {
    fn update_cum_strat(&mut self);
}
pub trait MutexPlayerRecurse {
    fn update_cum_strat(&self, prob: f64);
}
// R5: std::sync::Mutex as far as update_cum_strat uses it: lock() gives exclusive access to the
// protected value (TYPE-SUBST: the MutexGuard is seen as the `&mut` it derefs to; poisoning -- the Err
// case -- is not modelled: assumed Ok; blocking is not modelled)
#[derive(Debug)]
pub struct PoisonError { }
#[verifier::external_body]
#[verifier::reject_recursive_types(T)]
pub struct Mutex<T> { t: core::marker::PhantomData<T> }
impl<T> Mutex<T> {
    pub uninterp spec fn content(&self) -> T;
    #[verifier::external_body]
    pub fn lock(&self) -> (r: Result<&mut T, PoisonError>)
        ensures r is Ok, *(r->Ok_0) == self.content(),
    { unimplemented!() }
}
#[verifier::external_body] pub struct AtomicF64 { }"""),
        dict(file="src/solve/data.rs", path="struct RegretInfoset"),
        dict(file="src/solve/vanilla.rs", path="impl PlayerRecurse for RegretInfoset", members=[
            dict(path="fn update_cum_strat", obligation="C08.V.update_cum_strat.vanilla", n_loops=1,
                 contract="""ensures
    final(self).strat@ == old(self).strat@, final(self).cum_regret@ == old(self).cum_regret@,
    final(self).cum_strat@.len() == old(self).cum_strat@.len(),
    // iteration t contributes the current strategy weighted by the player's own reach
    old(self).strat@.len() == old(self).cum_strat@.len() ==> forall|i: int| 0 <= i < old(self).cum_strat@.len() ==>
        rv(#[trigger] final(self).cum_strat@[i]) == rv(old(self).cum_strat@[i]) + rv(prob) * rv(old(self).strat@[i]), // @ob C08.V.update_cum_strat.vanilla""",
                 entry="""broadcast use fl; broadcast use ideal;
proof { ax_obeys(); ax_rv_lits(); assume(self.strat@.len() == self.cum_strat@.len()); }
let ghost n = self.cum_strat@.len();
let ghost st = self.strat@;
let ghost c0 = self.cum_strat@;""",
                 loops={0: loop("rv(c0[i]) + rv(prob) * rv(st[i])")}),
        ]),
        dict(file="src/solve/external.rs", path="struct CachedInfoset", pub_fields=True),
        dict(file="src/solve/external.rs", path="impl ExternalInfo for CachedInfoset", members=[
            dict(path="fn update_cum_strat", obligation="C08.V.update_cum_strat.external", n_loops=1,
                 contract="""ensures
    final(self).reg.strat@ == old(self).reg.strat@, final(self).reg.cum_regret@ == old(self).reg.cum_regret@,
    final(self).cached == old(self).cached,
    final(self).reg.cum_strat@.len() == old(self).reg.cum_strat@.len(),
    // external sampling: the sampled player's current strategy is added unweighted
    old(self).reg.strat@.len() == old(self).reg.cum_strat@.len() ==> forall|i: int| 0 <= i < old(self).reg.cum_strat@.len() ==>
        rv(#[trigger] final(self).reg.cum_strat@[i]) == rv(old(self).reg.cum_strat@[i]) + rv(old(self).reg.strat@[i]), // @ob C08.V.update_cum_strat.external""",
                 entry="""broadcast use fl; broadcast use ideal;
proof { ax_obeys(); ax_rv_lits(); assume(self.reg.strat@.len() == self.reg.cum_strat@.len()); }
let ghost n = self.reg.cum_strat@.len();
let ghost st = self.reg.strat@;
let ghost c0 = self.reg.cum_strat@;""",
                 loops={0: loop("rv(c0[i]) + rv(st[i])")}),
        ]),
        dict(file="src/solve/vanilla.rs", path="struct MutexRegretInfoset"),
        dict(file="src/solve/vanilla.rs", path="impl MutexPlayerRecurse for MutexRegretInfoset", members=[
            dict(path="fn update_cum_strat", obligation="C08.V.update_cum_strat.mutex", n_loops=1,
                 entry="""broadcast use fl; broadcast use ideal;
proof { ax_obeys(); ax_rv_lits(); assume(self.strat@.len() == self.cum_strat.content()@.len()); }
let ghost n = self.strat@.len();
let ghost st = self.strat@;
let ghost c0 = self.cum_strat.content()@;""",
                 loops={0: dict(kind="for", binder="it",
                                head="""invariant
    it.snapshot@.remaining().len() == n,
    0 <= it.index@ <= n,
    zip_iter_snd(it.snapshot@).remaining().len() == n,
    forall|i: int| 0 <= i < n ==> (it.snapshot@.remaining()[i]).1 == #[trigger] zip_iter_snd(it.snapshot@).remaining()[i],
    forall|i: int| 0 <= i < n ==> *(#[trigger] it.snapshot@.remaining()[i]).0 == st[i] && *(it.snapshot@.remaining()[i]).1 == c0[i],
    forall|i: int| 0 <= i < it.index@ ==> rv(*final((#[trigger] it.snapshot@.remaining()[i]).1)) == rv(c0[i]) + rv(prob) * rv(st[i]),
ensures
    // (the protected vector is only reachable through the guard: the obligation is on the final values
    // of the elements the loop borrowed) every entry of the locked average strategy grows by prob x sigma_i
    forall|i: int| 0 <= i < n ==> rv(*final(#[trigger] zip_iter_snd(it.snapshot@).remaining()[i])) == rv(c0[i]) + rv(prob) * rv(st[i]), // @ob C08.V.update_cum_strat.mutex""",
                                body_start="broadcast use fl; broadcast use ideal;\nproof { ax_obeys(); ax_rv_lits(); }")}),
        ]),
    ],
)
