STUBS = """use std::hash::Hash;
pub trait Borrow<T> { }
#[verifier::external_body]
#[verifier::reject_recursive_types(I)]
#[verifier::reject_recursive_types(A)]
pub struct PlayerInfosetData<I, A> { _p: core::marker::PhantomData<(I, A)> }
#[verifier::external_body]
#[verifier::reject_recursive_types(I)]
#[verifier::reject_recursive_types(A)]
pub struct Inds<I, A> { _p: core::marker::PhantomData<(I, A)> }
#[verifier::external_body]
#[verifier::reject_recursive_types(I)]
#[verifier::reject_recursive_types(A)]
pub struct Singles<I, A> { _p: core::marker::PhantomData<(I, A)> }
// the phases of the hashing import, each an uninterpreted function of what it is given (their insides:
// c14_hash_validate, c14_normalise); what this unit decides is that strat_into_box IS their sequence
pub uninterp spec fn tables_spec<I, A>(infos: Seq<PlayerInfosetData<I, A>>) -> (Inds<I, A>, usize);
pub uninterp spec fn singles_spec<I, A>(raw: Seq<(I, A)>) -> Singles<I, A>;
pub uninterp spec fn dense_spec(n: usize) -> Box<[f64]>;
pub uninterp spec fn validate_spec<S, I, A>(strat: S, inds: Inds<I, A>, singles: Singles<I, A>, dense: Box<[f64]>) -> Result<(Singles<I, A>, Box<[f64]>), StratError>;
pub uninterp spec fn normalise_spec<I, A>(dense: Box<[f64]>, infos: Seq<PlayerInfosetData<I, A>>) -> Result<Box<[f64]>, StratError>;
pub uninterp spec fn all_seen_spec<I, A>(singles: Singles<I, A>) -> Result<(), StratError>;
#[verifier::external_body]
pub fn __abs_tables<I, A>(infos: &[PlayerInfosetData<I, A>]) -> (r: (Inds<I, A>, usize)) ensures r == tables_spec(infos@) { unimplemented!() }
#[verifier::external_body]
pub fn __abs_dense(n: usize) -> (r: Box<[f64]>) ensures r == dense_spec(n) { unimplemented!() }
#[verifier::external_body]
pub fn __abs_singles<I, A>(raw: &[(I, A)]) -> (r: Singles<I, A>) ensures r == singles_spec(raw@) { unimplemented!() }
#[verifier::external_body]
pub fn __abs_validate<S, I, A>(strat: S, inds: &Inds<I, A>, singles: &mut Singles<I, A>, dense: &mut Box<[f64]>) -> (r: Result<(), StratError>)
    ensures match validate_spec(strat, *inds, *old(singles), *old(dense)) {
        Ok(sd) => r is Ok && *final(singles) == sd.0 && *final(dense) == sd.1,
        Err(e) => r is Err && r->Err_0 == e,
    },
{ unimplemented!() }
#[verifier::external_body]
pub fn __abs_normalise<I, A>(dense: &mut Box<[f64]>, infos: &[PlayerInfosetData<I, A>]) -> (r: Result<(), StratError>)
    ensures match normalise_spec(*old(dense), infos@) { Ok(d) => r is Ok && *final(dense) == d, Err(e) => r is Err && r->Err_0 == e },
{ unimplemented!() }
#[verifier::external_body]
pub fn __abs_all_seen<I, A>(singles: Singles<I, A>) -> (r: Result<(), StratError>)
    ensures r == all_seen_spec(singles),
{ unimplemented!() }
// the result of the import as the sequence of its phases
pub open spec fn import_seq<S, I, A>(strat: S, infos: Seq<PlayerInfosetData<I, A>>, raw: Seq<(I, A)>) -> Result<Box<[f64]>, StratError> {
    let t = tables_spec(infos);
    match validate_spec(strat, t.0, singles_spec(raw), dense_spec(t.1)) {
        Err(e) => Err(e),
        Ok(sd) => match normalise_spec(sd.1, infos) {
            Err(e) => Err(e),
            Ok(d) => match all_seen_spec(sd.0) { Err(e) => Err(e), Ok(_) => Ok(d) },
        },
    }
}
"""
UNIT = dict(
    id="c14_hash_skeleton",
    prelude=[],
    canary_use="",
    assumptions=[
        "R6 skeleton slice of Game::strat_into_box (the hashing import of one player's weights): every top-level statement is one phase -- table construction, dense vector, single-action table, validation loop, normalisation loop, all-singles-seen check -- and is abstracted to an uninterpreted function of what it reads (statements that can leave with an error become `STUB?;`: kind abstract_exits, allowed only when every exit is `return Err(..)` or `?`); every OTHER statement is kept verbatim, so an added guard or early `return Ok(..)` must itself produce the result of the full sequence",
        "the obligation is stronger than the property: a semantically neutral shortcut would fail it too (reported with no-failing-input-found)",
    ],
    items=[
        dict(file="src/error.rs", path="enum StratError", attrs="#[derive(PartialEq, Eq, Structural, Clone, Copy)]"),
        dict(raw=STUBS),
        dict(raw="pub struct Game<I, A> { _p: core::marker::PhantomData<(I, A)> }"),
        dict(file="src/lib.rs", path="impl Game / fn strat_into_box", label="impl Game (hashing import)",
             header_only=True) if False else dict(raw="impl<I: Hash + Eq + Clone, A: Hash + Eq + Clone> Game<I, A> {"),
        dict(file="src/lib.rs", path="impl Game / fn strat_into_box", ret="out", vis="pub ",
             obligation="C14.V.hash_import.is_its_phases", rules=[],
             sig_subst=[(r"(?s)strat: impl IntoIterator<.*?>,\s*infos:", "strat: S,\n        infos:", "TYPE-SUBST the weights argument at an arbitrary type S"),
                        (r"fn strat_into_box\(", "fn strat_into_box<S>(", "TYPE-SUBST")],
             table=[
                 (r"^let mut num_inds = 0;$", ("abstract", "")),
                 (r"^let mut inds: HashMap<I, HashMap<A, usize>> = HashMap::with_capacity\(infos\.len\(\)\);$", ("abstract", "")),
                 (r"^for info in infos \{.*\}$", ("abstract", "let (inds, num_inds) = __abs_tables(infos);")),
                 (r"^let mut dense = vec!\[0\.0; num_inds\]\.into_boxed_slice\(\);$", ("abstract", "let mut dense = __abs_dense(num_inds);")),
                 (r"^let mut singles: HashMap<_, _> = raw_singles \.iter\(\) \.map\(\|\(info, act\)\| \(info, \(act, false\)\)\) \.collect\(\);$", ("abstract", "let mut singles = __abs_singles(raw_singles);")),
                 (r"^for \(binfoset, actions\) in strat \{.*\}$", ("abstract_exits", "__abs_validate(strat, &inds, &mut singles, &mut dense)?;")),
                 (r"^for vals in split_by_mut\(&mut dense, infos\.iter\(\)\.map\(\|info\| info\.num_actions\(\)\)\) \{.*\}$", ("abstract_exits", "__abs_normalise(&mut dense, infos)?;")),
                 (r"^if !singles\.into_values\(\)\.all\(\|\(_, seen\)\| seen\) \{ return Err\(StratError::UninitializedInfoset\); \}$", ("abstract_exits", "__abs_all_seen(singles)?;")),
             ],
             contract="""ensures
    out == import_seq(strat, infos@, raw_singles@), // @ob C14.V.hash_import.is_its_phases"""),
        dict(raw="}"),
    ],
)
