UNIT = dict(
    id="c10_sampled_chance",
    prelude=["rand_stub.rs", "std_vec.rs"],
    assumptions=[
        "rand_distr::WeightedAliasIndex::new succeeds on a non-empty weight vector and remembers exactly those weights; sample() returns an index below the number of weights, drawn proportionally to them (TRUSTED, statistical correctness not decided)",
        "WeightedAliasIndex::new's documented failure cases (negative / all-zero weights) are excluded by from_root's normalisation (assumed; C11 decides from_root per node only)",
    ],
    items=[
        dict(file="src/solve/data.rs", path="struct SampledChance", pub_fields=True),
        dict(file="src/solve/data.rs", path="impl SampledChance", members=[
            dict(path="fn new", ret="r", vis="pub ", obligation="C10.V.sampled_chance.new",
                 contract="""requires
    probs@.len() > 0,
ensures
    alias_weights(&r.index) == probs@, // @ob C10.V.sampled_chance.declared_weights
    r.cached == 0, // @ob C10.V.sampled_chance.starts_undrawn"""),
            dict(path="fn sample", ret="r", vis="pub ", obligation="C10.V.sampled_chance.cache",
                 contract="""ensures
    // already drawn this pass: no new draw, same outcome
    old(self).cached != 0 ==> r == old(self).cached - 1 && final(self).cached == old(self).cached, // @ob C10.V.sampled_chance.cache_hit
    // not drawn yet: exactly the sampler's result is stored as r + 1
    old(self).cached == 0 ==> final(self).cached == r + 1 && r < alias_weights(&old(self).index).len(), // @ob C10.V.sampled_chance.cache_fill
    final(self).cached != 0,
    final(self).index == old(self).index,"""),
            dict(path="fn reset", vis="pub ", obligation="C10.V.sampled_chance.reset",
                 contract="""ensures
    final(self).cached == 0, final(self).index == old(self).index, // @ob C10.V.sampled_chance.reset"""),
        ]),
    ],
)
