HEAD = """invariant_except_break
    k == r.index@,
    forall|j: nat| 1 <= j <= k ==> !below(state_after(s0, j), max_reg),
invariant
    __st.g@ == state_after(s0, k),
    k <= iter,
    k == 0 ==> regs[0] == finf() && regs[1] == finf(),
    k > 0 ==> (regs[0], regs[1]) == regs_of(__st.g@),
ensures
    forall|j: nat| 1 <= j < k ==> !below(state_after(s0, j), max_reg), // @ob C09.V.first_below.no_earlier_stop
    k < iter ==> k >= 1 && below(state_after(s0, k), max_reg), // @ob C09.V.first_below.stops_only_below"""
UNIT = dict(
    id="c09_generic_single",
    prelude=["floats.rs", "slice_state.rs"],
    canary_use="broadcast use fl; ax_obeys();",
    assumptions=[
        "R6 slice: the numeric statements of the iteration body (tree traversal, chance advance, per-infoset advance and the sum into regs) and the final strategy extraction are replaced by uninterpreted state transformers; the proof therefore holds for every body. Syntactic side conditions checked on every run: every statement is classified, abstracted statements contain no break/continue/return/? and do not mention max_reg",
        "the abstracted body is a deterministic function of (state, iteration number) -- for the sampled methods this is the property's premise 'sampling decisions fixed'",
        "uninterpreted floats: `<` and f64::max are the SAME functions in spec and code; no IEEE fact is used",
        "types RefCell / RegretInfoset / RegretParams / ChanceRecurse appear only in the signature and in abstracted statements; they are opaque here",
    ],
    items=[
        dict(raw="""pub trait ChanceRecurse { }
#[verifier::external_body] #[verifier::reject_recursive_types(T)] pub struct RefCell<T> { _p: core::marker::PhantomData<T> }
#[verifier::external_body] pub struct RegretInfoset { }
#[verifier::external_body] pub struct RegretParams { }
#[verifier::external_body] pub struct Node { }
"""),
        dict(file="src/solve/data.rs", path="type SolveInfo"),
        dict(file="src/solve/vanilla.rs", path="fn solve_generic_single", ret="out", n_loops=2,
             obligation="C09.V.first_below",
             forbidden=["max_reg"],
             table=[
                 (r"^let mut regs = \[f64::INFINITY; 2\];$", "keep"),
                 (r"^for it in 1\.\.=iter \{", "keep"),
                 (r"^let strats = player_infosets\.map\(", ("abstract", "let strats = __abs_final_strats(&__st);")),
                 (r"^\(regs, strats\)$", "keep"),
             ],
             loop_tables={0: [
                 (r"^let \[player_one, player_two\] = &player_infosets;$", ("abstract", "")),
                 (r"^recurse_single\( start, &chance_infosets, \[player_one, player_two\], 1\.0, \[1\.0; 2\], \);$", ("abstract", "")),
                 (r"^chance_infosets\.iter_mut\(\)\.for_each\(ChanceRecurse::advance\);$", ("abstract", "")),
                 (r"^for \(reg, infos\) in regs\.iter_mut\(\)\.zip\(player_infosets\.iter_mut\(\)\) \{ \*reg = infos \.iter_mut\(\) \.map\(\|info\| info\.get_mut\(\)\.advance\(it, params\)\) \.sum\(\); \}$",
                  ("abstract", "__abs_iteration(&mut __st, it, &mut regs);")),
                 (r"^let \[reg_one, reg_two\] = regs;$", "keep"),
                 (r"^if f64::max\(reg_one, reg_two\) < max_reg \{ break; \}$", "keep"),
             ]},
             contract="""ensures
    // with k the number of iterations executed and S_j the state after j iterations:
    exists|k: nat| k <= iter   // the budget is never exceeded
        && (forall|j: nat| 1 <= j < k ==> !below(state_after(__s0(), j), max_reg))   // no earlier iteration was below r
        && (k < iter ==> k >= 1 && below(state_after(__s0(), k), max_reg))            // stopped early only because below r
        && (k == 0 ==> out.0[0] == finf() && out.0[1] == finf())
        && (k > 0 ==> (out.0[0], out.0[1]) == regs_of(state_after(__s0(), k)))        // bounds of iteration k
        && out.1 == strats_of(state_after(__s0(), k)), // @ob C09.V.first_below.returns_state_k""",
             entry="""broadcast use fl;
proof { ax_obeys(); }
let mut __st = __init_state();
proof { assume(__st.g@ == __s0()); }
let ghost s0 = __st.g@;
let ghost mut k: nat = 0;""",
             loops={0: dict(kind="for", binder="r", head=HEAD,
                            body_start="broadcast use fl;\nproof { ax_obeys(); k = k + 1; }")},
        ),
    ],
)
