P = __file__.rsplit("/units/", 1)[0] + "/prelude/"
SPECS = """// value of the traversal of the subtree below `n` entered with the given reaches (recursive calls of
// recurse_single are bound to it: R5)
pub uninterp spec fn sub_spec(n: Node, p_chance: f64, p_player: [f64; 2]) -> f64;
// counterfactual weight of the acting player's regrets: opponent reach x chance reach, negated for
// player two (payoffs are player one's)
pub open spec fn mult_spec(num: PlayerNum, p_chance: f64, p_player: [f64; 2]) -> real {
    match num { PlayerNum::One => rv(p_chance) * rv(p_player[1]), PlayerNum::Two => 0real - rv(p_player[0]) * rv(p_chance) }
}
pub open spec fn own_reach(num: PlayerNum, p_player: [f64; 2]) -> f64 { match num { PlayerNum::One => p_player[0], PlayerNum::Two => p_player[1] } }
// reach vector handed to the continuation of action a: only the acting player's entry is multiplied by sigma_a
pub open spec fn pnext_ok(num: PlayerNum, p_player: [f64; 2], prob: f64, p_next: [f64; 2]) -> bool {
    match num {
        PlayerNum::One => rv(p_next[0]) == rv(p_player[0]) * rv(prob) && p_next[1] == p_player[1],
        PlayerNum::Two => p_next[0] == p_player[0] && rv(p_next[1]) == rv(p_player[1]) * rv(prob),
    }
}
// u is the value of the subtree below `node`, entered with the SAME chance reach and a reach vector
// in which only the acting player's entry is multiplied by the action's probability
pub open spec fn child_value(node: Node, num: PlayerNum, p_chance: f64, p_player: [f64; 2], prob: f64, u: f64) -> bool {
    exists|pn: [f64; 2]| pnext_ok(num, p_player, prob, pn) && u == #[trigger] sub_spec(node, p_chance, pn)
}
pub open spec fn exp_one(strat: Seq<f64>, us: Seq<f64>, k: int) -> real decreases k {
    if k <= 0 { 0real } else { exp_one(strat, us, k - 1) + rv(strat[k - 1]) * rv(us[k - 1]) }
}
pub open spec fn exp_cf(strat: Seq<f64>, us: Seq<f64>, mult: real, k: int) -> real decreases k {
    if k <= 0 { 0real } else { exp_cf(strat, us, mult, k - 1) + rv(us[k - 1]) * mult * rv(strat[k - 1]) }
}
// what one visit of a decision node does to its infoset and returns, given the children's values us:
//   average strategy += own reach x current strategy;  regret_a += mult x u_a - sum_b u_b mult sigma_b;
//   returned value sum_a sigma_a u_a
pub open spec fn visit_ok(pl: Player, p_chance: f64, p_player: [f64; 2], before: RegretInfoset, after: RegretInfoset, res: f64) -> bool {
    let m = mult_spec(pl.num, p_chance, p_player);
    after.strat@ == before.strat@
    && after.cum_strat@.len() == before.cum_strat@.len()
    && (forall|i: int| 0 <= i < before.cum_strat@.len() ==> rv(#[trigger] after.cum_strat@[i]) == rv(before.cum_strat@[i]) + rv(own_reach(pl.num, p_player)) * rv(before.strat@[i]))
    && after.cum_regret@.len() == before.cum_regret@.len()
    && exists|us: Seq<f64>| us.len() == pl.actions@.len()
        && (forall|a: int| 0 <= a < us.len() ==> #[trigger] child_value(pl.actions@[a], pl.num, p_chance, p_player, before.strat@[a], us[a]))
        && (forall|a: int| 0 <= a < us.len() ==> rv(#[trigger] after.cum_regret@[a]) == rv(before.cum_regret@[a]) + rv(us[a]) * m - exp_cf(before.strat@, us, m, us.len() as int))
        && rv(res) == exp_one(before.strat@, us, us.len() as int)
}
"""
UNIT = dict(
    id="c08_recurse_single_player_arm",
    prelude=["floats.rs", "ideal.rs"],
    canary_use="broadcast use fl; broadcast use ideal; ax_obeys(); ax_rv_lits();",
    expect=[("src/solve/vanilla.rs", r"trait PlayerRecurse \{\s*fn update_cum_strat\(&mut self, prob: f64\);")],
    assumptions=[
        "idealised-real float mode",
        "BLOCK: the unit is the decision-node arm of vanilla::recurse_single (`Node::Player(player) => { .. }`), free variables as parameters; the recursive call inside the continuation closure is bound (R5) to the uninterpreted sub_spec(node, chance reach, player reaches), and the closure is given the contract `returns sub_spec(child, p_chance, p_next)` at its head (Verus checks the closure body against it)",
        "callee contracts restated, not re-proved here: PlayerRecurse::update_cum_strat for RegretInfoset (proved by c08_update_cum_strat) and recurse_player (proved by c08_recurse_player, here with the continuation's values named through sub_spec)",
        "std::cell::RefCell: borrow_mut() yields exclusive access to the cell's content (no BorrowMutError: single-threaded traversal never revisits an infoset while it is borrowed -- NOT proved); the obligation is stated on the borrowed infoset at the end of the arm, in front of the returned expression",
        "struct invariant actions.len() == strat.len() == cum_regret.len() == cum_strat.len(), infoset index in range (wf_game + RegretInfoset::new), assumed at entry",
    ],
    items=[
        dict(file="src/lib.rs", path="enum PlayerNum", attrs="#[derive(Copy, Clone)]"),
        dict(raw=open(P + "playernum.rs").read()),
        dict(file="src/lib.rs", path="enum Node"),
        dict(file="src/lib.rs", path="struct Chance", pub_fields=True),
        dict(file="src/lib.rs", path="struct Player", pub_fields=True),
        dict(file="src/solve/data.rs", path="struct RegretInfoset"),
        dict(raw=SPECS + """#[verifier::external_body] pub struct ChanceTables { }
#[verifier::external_body]
#[verifier::reject_recursive_types(T)]
pub struct RefCell<T> { t: core::marker::PhantomData<T> }
impl<T> RefCell<T> {
    pub uninterp spec fn content(&self) -> T;
    #[verifier::external_body]
    pub fn borrow_mut(&self) -> (r: &mut T)
        ensures *r == self.content(),
    { unimplemented!() }
}
pub trait PlayerRecurse {
    fn update_cum_strat(&mut self, prob: f64);
}
impl PlayerRecurse for RegretInfoset {
    // contract proved for the real method by unit c08_update_cum_strat
    #[verifier::external_body]
    fn update_cum_strat(&mut self, prob: f64)
        ensures
            final(self).strat@ == old(self).strat@, final(self).cum_regret@ == old(self).cum_regret@,
            final(self).cum_strat@.len() == old(self).cum_strat@.len(),
            old(self).strat@.len() == old(self).cum_strat@.len() ==> forall|i: int| 0 <= i < old(self).cum_strat@.len() ==>
                rv(#[trigger] final(self).cum_strat@[i]) == rv(old(self).cum_strat@[i]) + rv(prob) * rv(old(self).strat@[i]),
    { unimplemented!() }
}
// contract proved for the real recurse_player by unit c08_recurse_player (values of the continuation
// named through sub_spec, which the continuation is REQUIRED to return)
#[verifier::external_body]
pub fn recurse_player<F: Fn(&Node, [f64; 2]) -> f64>(player: &Player, p_chance: f64, p_player: [f64; 2], strat: &[f64], cum_regret: &mut [f64], rec: F) -> (out: (f64, f64))
    requires
        forall|n: &Node, pn: [f64; 2]| #[trigger] rec.requires((n, pn)),
        forall|n: &Node, pn: [f64; 2], o: f64| #[trigger] rec.ensures((n, pn), o) ==> o == sub_spec(*n, p_chance, pn),
    ensures
        final(cum_regret)@.len() == old(cum_regret)@.len(),
        exists|us: Seq<f64>| us.len() == player.actions@.len()
            && (forall|a: int| 0 <= a < us.len() ==> #[trigger] child_value(player.actions@[a], player.num, p_chance, p_player, strat@[a], us[a]))
            && (forall|a: int| 0 <= a < us.len() ==> rv(#[trigger] final(cum_regret)@[a]) == rv(old(cum_regret)@[a]) + rv(us[a]) * mult_spec(player.num, p_chance, p_player))
            && rv(out.0) == exp_one(strat@, us, us.len() as int)
            && rv(out.1) == exp_cf(strat@, us, mult_spec(player.num, p_chance, p_player), us.len() as int),
{ unimplemented!() }
#[verifier::external_body]
pub fn __rec(node: &Node, chance_infosets: &ChanceTables, player_infosets: [&[RefCell<RegretInfoset>]; 2], p_chance: f64, p_player: [f64; 2]) -> (r: f64)
    ensures r == sub_spec(*node, p_chance, p_player),
{ unimplemented!() }
"""),
        dict(file="src/solve/vanilla.rs", path="fn recurse_single", arm_re=r"Node::Player\(player\) => \{", arm_count=1,
             as_fn="recurse_single__player_arm",
             params="player: &Player, chance_infosets: &ChanceTables, player_infosets: [&[RefCell<RegretInfoset>]; 2], p_chance: f64, p_player: [f64; 2]",
             ret="out", ret_type="f64",
             obligation="C08.V.recurse_single.player_arm",
             rules=["R3", "R1", "R9", "R10"],
             body_subst=[(r"recurse_single\(next,", "__rec(next,", "R5 recursive call bound to sub_spec"),
                         (r"\|next, p_next\| \{", "|next: &Node, p_next: [f64; 2]| -> (o: f64) ensures o == sub_spec(*next, p_chance, p_next) {", "closure contract")],
             contract="""requires
    player.infoset < (match player.num { PlayerNum::One => player_infosets[0]@, PlayerNum::Two => player_infosets[1]@ }).len(),
ensures
    true,""",
             entry="""broadcast use fl; broadcast use ideal;
proof { ax_obeys(); ax_rv_lits(); }
let ghost cell = (match player.num { PlayerNum::One => player_infosets[0]@, PlayerNum::Two => player_infosets[1]@ })[player.infoset as int];
let ghost before = cell.content();
proof { assume(before.strat@.len() == player.actions@.len() && before.cum_strat@.len() == before.strat@.len() && before.cum_regret@.len() == before.strat@.len()); }""",
             loops={0: dict(kind="for", binder="it",
                            before="""let ghost mid = *info;
let ghost n = mid.cum_regret@.len();
let ghost c1 = mid.cum_regret@;""",
                            head="""invariant
    it.snapshot@.remaining().len() == n, 0 <= it.index@ <= n,
    forall|i: int| 0 <= i < n ==> *(#[trigger] it.snapshot@.remaining()[i]) == c1[i],
    forall|i: int| 0 <= i < it.index@ ==> rv(*final(#[trigger] it.snapshot@.remaining()[i])) == rv(c1[i]) - rv(sub),
ensures
    forall|i: int| 0 <= i < n ==> rv(*final(#[trigger] it.snapshot@.remaining()[i])) == rv(c1[i]) - rv(sub),""",
                            body_start="broadcast use fl; broadcast use ideal;\nproof { ax_obeys(); ax_rv_lits(); }")},
             before_tail="""proof {
    // the infoset visited is the acting player's infoset of this node, and one visit does exactly this to it:
    assert(visit_ok(*player, p_chance, p_player, before, *info, res)); // @ob C08.V.recurse_single.player_arm
}""",
        ),
    ],
)
