STUBS = """pub trait ChanceInfoset { spec fn probs_view(&self) -> Seq<f64>; fn probs(&self) -> (r: &[f64]) ensures r@ == self.probs_view(); }
pub trait PlayerInfoset { spec fn num_actions_view(&self) -> usize; fn num_actions(&self) -> (r: usize) ensures r == self.num_actions_view(); }
// per-infoset solver state, as far as the table construction is concerned: its size / its weights
pub struct RegretInfoset { pub n: Ghost<usize> }
impl RegretInfoset { #[verifier::external_body] pub fn new(num_actions: usize) -> (r: Self) ensures r.n@ == num_actions { unimplemented!() } }
pub struct MutexRegretInfoset { pub n: Ghost<usize> }
impl MutexRegretInfoset { #[verifier::external_body] pub fn new(num_actions: usize) -> (r: Self) ensures r.n@ == num_actions { unimplemented!() } }
pub struct CachedInfoset { pub n: Ghost<usize> }
impl CachedInfoset { #[verifier::external_body] pub fn new(num_actions: usize) -> (r: Self) ensures r.n@ == num_actions { unimplemented!() } }
pub struct SampledChance { pub w: Ghost<Seq<f64>> }
impl SampledChance { #[verifier::external_body] pub fn new(probs: &[f64]) -> (r: Self) ensures r.w@ == probs@ { unimplemented!() } }
pub struct RefCell<T> { pub v: T }
impl<T> RefCell<T> { pub fn new(v: T) -> (r: Self) ensures r.v == v { RefCell { v } } }
pub struct Mutex<T> { pub v: T }
impl<T> Mutex<T> { pub fn new(v: T) -> (r: Self) ensures r.v == v { Mutex { v } } }
// what a chance-infoset entry of a solver table is: an enumerating one (all outcomes with their declared
// probabilities, no draw) or a sampling one (draws from the declared weights)
pub trait ChanceEntry { spec fn samples(&self) -> bool; spec fn weights(&self) -> Seq<f64>; }
impl<'a> ChanceEntry for FullChance<'a> { open spec fn samples(&self) -> bool { false } open spec fn weights(&self) -> Seq<f64> { self.0@ } }
impl ChanceEntry for RefCell<SampledChance> { open spec fn samples(&self) -> bool { true } open spec fn weights(&self) -> Seq<f64> { self.v.w@ } }
impl ChanceEntry for Mutex<SampledChance> { open spec fn samples(&self) -> bool { true } open spec fn weights(&self) -> Seq<f64> { self.v.w@ } }
pub fn __expect_chance<E: ChanceEntry>(e: E, Ghost(samples): Ghost<bool>, Ghost(w): Ghost<Seq<f64>>)
    requires e.samples() == samples, e.weights() == w,
{ }
pub trait PlayerEntry { spec fn size(&self) -> usize; }
impl PlayerEntry for RefCell<RegretInfoset> { open spec fn size(&self) -> usize { self.v.n@ } }
impl PlayerEntry for MutexRegretInfoset { open spec fn size(&self) -> usize { self.n@ } }
impl PlayerEntry for RefCell<CachedInfoset> { open spec fn size(&self) -> usize { self.v.n@ } }
impl PlayerEntry for Mutex<CachedInfoset> { open spec fn size(&self) -> usize { self.v.n@ } }
pub fn __expect_player<E: PlayerEntry>(e: E, Ghost(n): Ghost<usize>)
    requires e.size() == n,
{ }
"""
def chance(fn, file, k, samples, ob):
    return dict(file=file, path="fn %s" % fn, closure=k, expr_closure=True, header_re=r"^\|info\|$",
                as_fn="%s__chance_entry" % fn, generics="<CI: ChanceInfoset>", params="info: &CI",
                obligation=ob, rules=[],
                wrap_expr=("__expect_chance(", ", Ghost(%s), Ghost(info.probs_view()))" % samples))
def player(fn, file, k, ob):
    return dict(file=file, path="fn %s" % fn, closure=k, expr_closure=True, header_re=r"^\|info\|$",
                as_fn="%s__player_entry" % fn, generics="<PI: PlayerInfoset>", params="info: &PI",
                obligation=ob, rules=[],
                wrap_expr=("__expect_player(", ", Ghost(info.num_actions_view()))"))
V = "src/solve/vanilla.rs"
X = "src/solve/external.rs"
UNIT = dict(
    id="c10_solver_tables",
    prelude=[],
    canary_use="",
    assumptions=[
        "BLOCK: the units are the expression bodies of the closures that build the per-infoset solver tables in the six solver entry points (`chance_info.iter().map(|info| ..)`, `infos.iter().map(|info| ..)`); each is handed to a checking stub whose precondition is the obligation: the unsampled method gets enumerating chance entries over the declared probabilities (no draw), the sampled methods sampling entries over the declared weights, every player entry is sized by its infoset's action count. The map/collect chains around them are std code",
        "RegretInfoset / MutexRegretInfoset / CachedInfoset / SampledChance constructors are stand-ins recording their argument (the real ones: Kani c05_regret_infoset_new, Verus c10_sampled_chance)",
    ],
    items=[
        dict(file=V, path="struct FullChance", vis="pub ", subst=[(r"struct FullChance<'a>\(&'a \[f64\]\);", "struct FullChance<'a>(pub &'a [f64]);", "R0 field visibility")]),
        dict(raw=STUBS),
        player("solve_full_single", V, 0, "C10.V.solver_tables.player_entry_sized"),
        chance("solve_full_single", V, 1, "false", "C10.V.solver_tables.full_enumerates"),
        player("solve_full_multi", V, 0, "C10.V.solver_tables.player_entry_sized"),
        chance("solve_full_multi", V, 1, "false", "C10.V.solver_tables.full_enumerates"),
        player("solve_sampled_single", V, 0, "C10.V.solver_tables.player_entry_sized"),
        chance("solve_sampled_single", V, 1, "true", "C10.V.solver_tables.sampled_samples_declared_weights"),
        player("solve_sampled_multi", V, 0, "C10.V.solver_tables.player_entry_sized"),
        chance("solve_sampled_multi", V, 1, "true", "C10.V.solver_tables.sampled_samples_declared_weights"),
        chance("solve_external_single", X, 0, "true", "C10.V.solver_tables.sampled_samples_declared_weights"),
        player("solve_external_single", X, 1, "C10.V.solver_tables.player_entry_sized"),
        chance("solve_external_multi", X, 0, "true", "C10.V.solver_tables.sampled_samples_declared_weights"),
        player("solve_external_multi", X, 1, "C10.V.solver_tables.player_entry_sized"),
    ],
)
