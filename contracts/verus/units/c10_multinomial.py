P = __file__.rsplit("/units/", 1)[0] + "/prelude/"
UNIT = dict(
    id="c10_multinomial",
    prelude=["floats.rs", "ideal.rs", "rand_stub.rs"],
    canary_use="broadcast use fl; broadcast use ideal; ax_obeys(); ax_rv_lits();",
    assumptions=[
        "idealised-real float mode (rv axioms)",
        "rand::Rng::gen::<f64>() returns the generator's next uniform variate (assumed contract on rand; trait restated in prelude/rand_stub.rs)",
    ],
    items=[
        dict(raw=open(P + "multinomial_spec.rs").read()),
        dict(file="src/solve/multinomial.rs", path="struct Multinomial", pub_fields=True),
        dict(file="src/solve/multinomial.rs", path="impl Multinomial", members=[
            dict(path="fn new", ret="r", vis="pub ", obligation="C10.V.multinomial.new",
                 contract="""requires
    probs@.len() >= 1,
ensures
    r.init_probs@ == probs@.take(probs@.len() - 1), // @ob C10.V.multinomial.new_drops_last""")]),
        dict(file="src/solve/multinomial.rs", path="impl Distribution<usize> for Multinomial<'_>", members=[
            dict(path="fn sample", ret="res", obligation="C10.V.multinomial.inverse_cdf", n_loops=1,
                 contract="""ensures
    res <= self.init_probs@.len(), // @ob C10.V.multinomial.index_in_range
    inv_cdf(self.init_probs@, old(rnd).next_f64(), res as int), // @ob C10.V.multinomial.inverse_cdf
    // k is returned exactly when the variate lies in the k-th cumulative-probability interval:
    forall|j: int| 0 < j <= res ==> cum(self.init_probs@, j) < rv(old(rnd).next_f64()), // @ob C10.V.multinomial.inverse_cdf
    res < self.init_probs@.len() ==> rv(old(rnd).next_f64()) <= cum(self.init_probs@, res as int + 1), // @ob C10.V.multinomial.inverse_cdf""",
                 loops={0: dict(kind="for", binder="it",
                                before="let ghost u = remaining;",
                                head="""invariant_except_break
    res == it.index@,
invariant
    res <= self.init_probs@.len(), self.init_probs@.len() == self.init_probs.len(),
    u == old(rnd).next_f64(),
    rv(remaining) == rv(u) - cum(self.init_probs@, res as int), // @ob C10.V.multinomial.inverse_cdf
    forall|j: int| 0 < j <= res ==> cum(self.init_probs@, j) < rv(u), // @ob C10.V.multinomial.inverse_cdf
ensures
    res < self.init_probs@.len() ==> rv(u) <= cum(self.init_probs@, res as int + 1), // @ob C10.V.multinomial.inverse_cdf""",
                                body_start="broadcast use fl; broadcast use ideal;\nproof { ax_obeys(); ax_rv_lits(); }")}),
        ]),
    ],
)
