def pred(fn, as_fn, ob):
    return dict(file="src/lib.rs", path="impl Iterator for NamedStrategyActionIter / fn %s" % fn, closure=0, expr_closure=True,
                header_re=r"^\|\(_, prob\)\|$", as_fn=as_fn,
                params="prob: &&f64", ret="out", ret_type="bool",
                obligation=ob, rules=[],
                entry="broadcast use fl;\nproof { ax_obeys(); ax_refref_cmp(); }",
                contract="""ensures
    // an action is listed / counted exactly when its probability is positive
    out == fgt(**prob, 0.0f64), // @ob %s""" % ob)
UNIT = dict(
    id="c13_action_iter_predicates",
    prelude=["floats.rs"],
    canary_use="broadcast use fl; ax_obeys(); ax_refref_cmp();",
    expect=[("src/lib.rs", r"ActionType::Data\(zip\) => zip\s*\.find\(\|\(_, prob\)\| [^|]*\)\s*\.map\(\|\(act, &prob\)\| \(act, prob\)\),"),
            ("src/lib.rs", r"ActionType::Data\(zip\) => zip\.clone\(\)\.filter\(\|\(_, prob\)\| [^|]*\)\.count\(\),")],
    assumptions=[
        "BLOCK: the units are the predicates (expression bodies of the closures) handed to `find` in NamedStrategyActionIter::next and to `filter` in ::size_hint; `zip.find(P).map(..)` and `zip.clone().filter(P).count()` are std adapter code pinned textually: with the SAME predicate P the advertised length is the number of items next() will still yield (std semantics of find / filter / count, trusted; the bounded Kani harness c13_named_len_prefix_and_content exercises the real chains)",
        "core: PartialOrd for &A delegates to A (applied twice for `&&f64 > &&f64`): axiom ax_refref_cmp",
    ],
    items=[
        dict(raw="""// core: `impl PartialOrd<&B> for &A where A: PartialOrd<B>` compares the pointees
pub axiom fn ax_refref_cmp()
    ensures <&&f64 as PartialOrdSpec<&&f64>>::obeys_partial_cmp_spec(),
        forall|a: &&f64, b: &&f64| #[trigger] <&&f64 as PartialOrdSpec<&&f64>>::partial_cmp_spec(&a, &b) == fcmp(**a, **b);
"""),
        pred("next", "action_iter_next__listed", "C13.V.action_iter.next_lists_positive"),
        pred("size_hint", "action_iter_size_hint__counted", "C13.V.action_iter.len_counts_positive"),
    ],
)
