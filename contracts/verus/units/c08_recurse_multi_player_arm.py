import importlib.util, os
_s = importlib.util.spec_from_file_location("c08rsp", os.path.join(os.path.dirname(__file__), "c08_recurse_single_player_arm.py"))
_m = importlib.util.module_from_spec(_s); _s.loader.exec_module(_m)
P = __file__.rsplit("/units/", 1)[0] + "/prelude/"
UNIT = dict(
    id="c08_recurse_multi_player_arm",
    prelude=["floats.rs", "ideal.rs"],
    canary_use="broadcast use fl; broadcast use ideal; ax_obeys(); ax_rv_lits();",
    expect=[("src/solve/vanilla.rs", r"trait MutexPlayerRecurse \{\s*fn update_cum_strat\(&self, prob: f64\);")],
    assumptions=[
        "idealised-real float mode",
        "BLOCK: the unit is the decision-node arm of vanilla::recurse_multi (`Node::Player(player) => { .. }`), free variables as parameters; recursive call in the continuation closure bound (R5) to sub_spec, closure contract inserted at its head (as in c08_recurse_single_player_arm)",
        "R16 (effects behind shared references): the infoset is reached through `&` (Mutex / AtomicF64), so its updates cannot be a postcondition on a value; the three effectful calls of the arm -- info.update_cum_strat(..), recurse_player(..) and val.fetch_sub(..) -- are given one extra ghost argument, an event log, by a declared textual rewrite, and the obligation is the exact sequence of events the arm appends (which cell, which amount, each once)",
        "callee contracts restated: MutexPlayerRecurse::update_cum_strat adds prob x strategy to the locked average strategy (c08_update_cum_strat, Mutex member); recurse_player at its AtomicF64 instance adds u_a x mult to cell a (the &mut [f64] instance is what c08_recurse_player proves; the Add impl for &AtomicF64 is one fetch_add); AtomicF64::fetch_sub subtracts",
        "atomic read-modify-write operations are treated as sequential events of this worker (interleavings with other workers are NOT modelled; floating-point addition is not associative, see C06 not-decided)",
        "struct invariant actions.len() == strat.len() == cum_regret.len(), infoset index in range, assumed at entry",
    ],
    items=[
        dict(file="src/lib.rs", path="enum PlayerNum", attrs="#[derive(Copy, Clone)]"),
        dict(raw=open(P + "playernum.rs").read()),
        dict(file="src/lib.rs", path="enum Node"),
        dict(file="src/lib.rs", path="struct Chance", pub_fields=True),
        dict(file="src/lib.rs", path="struct Player", pub_fields=True),
        dict(raw="""#[verifier::external_body] pub struct AtomicF64 { }
impl AtomicF64 { pub uninterp spec fn id(&self) -> int; }
#[verifier::external_body]
#[verifier::reject_recursive_types(T)]
pub struct Mutex<T> { t: core::marker::PhantomData<T> }
pub enum Ordering { Relaxed }
"""),
        dict(file="src/solve/vanilla.rs", path="struct MutexRegretInfoset"),
        dict(raw=_m.SPECS.split("// what one visit of a decision node does")[0] + """
pub enum Ev {
    // average strategy of infoset `0` += `1` x its current strategy
    Ucs(MutexRegretInfoset, f64),
    // cumulative regret cell `0` += `1`   /   -= `1`
    Add(int, f64),
    Sub(int, f64),
}
#[verifier::external_body] pub struct ChanceTables { }
#[verifier::external_body] pub struct Cache { }
// R16: logged forms of the three effectful calls
#[verifier::external_body]
pub fn __update_cum_strat(info: &MutexRegretInfoset, prob: f64, log: &mut Ghost<Seq<Ev>>)
    ensures final(log)@ == old(log)@.push(Ev::Ucs(*info, prob)),
{ unimplemented!() }
#[verifier::external_body]
pub fn __fetch_sub(cell: &AtomicF64, v: f64, o: Ordering, log: &mut Ghost<Seq<Ev>>)
    ensures final(log)@ == old(log)@.push(Ev::Sub(cell.id(), v)),
{ unimplemented!() }
pub open spec fn rp_ok(us: Seq<f64>, adds: Seq<f64>, player: Player, p_chance: f64, p_player: [f64; 2], strat: Seq<f64>, cells: Seq<AtomicF64>, l_old: Seq<Ev>, l_new: Seq<Ev>, out: (f64, f64)) -> bool {
    us.len() == player.actions@.len() && adds.len() == us.len()
    && (forall|a: int| 0 <= a < us.len() ==> #[trigger] child_value(player.actions@[a], player.num, p_chance, p_player, strat[a], us[a]))
    && (forall|a: int| 0 <= a < us.len() ==> rv(#[trigger] adds[a]) == rv(us[a]) * mult_spec(player.num, p_chance, p_player))
    && l_new == l_old + Seq::new(us.len(), |a: int| Ev::Add(cells[a].id(), adds[a]))
    && rv(out.0) == exp_one(strat, us, us.len() as int)
    && rv(out.1) == exp_cf(strat, us, mult_spec(player.num, p_chance, p_player), us.len() as int)
}
#[verifier::external_body]
pub fn __recurse_player<F: Fn(&Node, [f64; 2]) -> f64>(log: &mut Ghost<Seq<Ev>>, player: &Player, p_chance: f64, p_player: [f64; 2], strat: &[f64], cum_regret: &[AtomicF64], rec: F) -> (out: (f64, f64))
    requires
        forall|n: &Node, pn: [f64; 2]| #[trigger] rec.requires((n, pn)),
        forall|n: &Node, pn: [f64; 2], o: f64| #[trigger] rec.ensures((n, pn), o) ==> o == sub_spec(*n, p_chance, pn),
    ensures
        exists|us: Seq<f64>, adds: Seq<f64>| #[trigger] rp_ok(us, adds, *player, p_chance, p_player, strat@, cum_regret@, old(log)@, final(log)@, out),
{ unimplemented!() }
#[verifier::external_body]
pub fn __rec(node: &Node, chance_infosets: &ChanceTables, player_infosets: [&[MutexRegretInfoset]; 2], p_chance: f64, p_player: [f64; 2], cached: &Cache) -> (r: f64)
    ensures r == sub_spec(*node, p_chance, p_player),
{ unimplemented!() }
// the events one visit of a decision node appends, given the children's values us
pub open spec fn ve_ok(us: Seq<f64>, adds: Seq<f64>, sub: f64, pl: Player, p_chance: f64, p_player: [f64; 2], info: MutexRegretInfoset, res: f64, evs: Seq<Ev>) -> bool {
    let m = mult_spec(pl.num, p_chance, p_player);
    let n = pl.actions@.len() as int;
    us.len() == n && adds.len() == n
        && (forall|a: int| 0 <= a < n ==> #[trigger] child_value(pl.actions@[a], pl.num, p_chance, p_player, info.strat@[a], us[a]))
        && (forall|a: int| 0 <= a < n ==> rv(#[trigger] adds[a]) == rv(us[a]) * m)
        && rv(sub) == exp_cf(info.strat@, us, m, n)
        && rv(res) == exp_one(info.strat@, us, n)
        // average strategy += own reach x strategy; then regret_a += mult x u_a; then regret_a -= sum_b u_b mult sigma_b
        && evs == seq![Ev::Ucs(info, own_reach(pl.num, p_player))]
            + Seq::new(n as nat, |a: int| Ev::Add(info.cum_regret@[a].id(), adds[a]))
            + Seq::new(n as nat, |a: int| Ev::Sub(info.cum_regret@[a].id(), sub))
}
pub open spec fn visit_events(pl: Player, p_chance: f64, p_player: [f64; 2], info: MutexRegretInfoset, res: f64, evs: Seq<Ev>) -> bool {
    exists|us: Seq<f64>, adds: Seq<f64>, sub: f64| #[trigger] ve_ok(us, adds, sub, pl, p_chance, p_player, info, res, evs)
}
"""),
        dict(file="src/solve/vanilla.rs", path="fn recurse_multi", arm_re=r"Node::Player\(player\) => \{", arm_count=1,
             as_fn="recurse_multi__player_arm",
             params="player: &Player, chance_infosets: &ChanceTables, player_infosets: [&[MutexRegretInfoset]; 2], p_chance: f64, p_player: [f64; 2], cached: &Cache, log: &mut Ghost<Seq<Ev>>",
             ret="out", ret_type="f64",
             obligation="C08.V.recurse_multi.player_arm",
             rules=["R3", "R1", "R9", "R10"],
             body_subst=[(r"recurse_multi\(\s*next,", "__rec(next,", "R5 recursive call bound to sub_spec"),
                         (r"\|next, p_next\| \{", "|next: &Node, p_next: [f64; 2]| -> (o: f64) ensures o == sub_spec(*next, p_chance, p_next) {", "closure contract"),
                         (r"info\.update_cum_strat\(([^;]*)\);", r"__update_cum_strat(info, \1, log); let ghost lu = log@;", "R16 logged effect"),
                         (r"= recurse_player\(", "= __recurse_player(log, ", "R16 logged effect"),
                         (r"val\.fetch_sub\(([^;]*)\);", r"__fetch_sub(val, \1, log);", "R16 logged effect")],
             contract="""requires
    player.infoset < (match player.num { PlayerNum::One => player_infosets[0]@, PlayerNum::Two => player_infosets[1]@ }).len(),
    ({ let i = (match player.num { PlayerNum::One => player_infosets[0]@, PlayerNum::Two => player_infosets[1]@ })[player.infoset as int];
       i.strat@.len() == player.actions@.len() && i.cum_regret@.len() == player.actions@.len() }),
ensures
    // exactly these updates, on the acting player's infoset of this node, each once
    exists|evs: Seq<Ev>| final(log)@ == old(log)@ + evs && visit_events(*player, p_chance, p_player,
        (match player.num { PlayerNum::One => player_infosets[0]@, PlayerNum::Two => player_infosets[1]@ })[player.infoset as int], out, evs), // @ob C08.V.recurse_multi.player_arm""",
             entry="""broadcast use fl; broadcast use ideal;
proof { ax_obeys(); ax_rv_lits(); }
let ghost l0 = log@;
let ghost inf = (match player.num { PlayerNum::One => player_infosets[0]@, PlayerNum::Two => player_infosets[1]@ })[player.infoset as int];
let ghost n = player.actions@.len() as int;""",
             loops={0: dict(kind="for", binder="it",
                            before="""let ghost l1 = log@;""",
                            head="""invariant
    0 <= it.index@ <= n, n == inf.cum_regret@.len(), *info == inf,
    log@ == l1 + Seq::new(it.index@ as nat, |a: int| Ev::Sub(inf.cum_regret@[a].id(), sub)),""",
                            body_start="""let ghost k = it.index@ as int;
let ghost lb = log@;""",
                            body_end="""proof {
    assert(*val == inf.cum_regret@[k]);
    assert(log@ =~= l1 + Seq::new((k + 1) as nat, |a: int| Ev::Sub(inf.cum_regret@[a].id(), sub)));
}""",
                            after="let ghost l2 = log@;")},
             before_tail="""proof {
    assert(*info == inf);
    let (us, adds) = choose|us: Seq<f64>, adds: Seq<f64>| #[trigger] rp_ok(us, adds, *player, p_chance, p_player, inf.strat@, inf.cum_regret@, lu, l1, (res, sub));
    let evs = seq![Ev::Ucs(inf, own_reach(player.num, p_player))]
        + Seq::new(n as nat, |a: int| Ev::Add(inf.cum_regret@[a].id(), adds[a]))
        + Seq::new(n as nat, |a: int| Ev::Sub(inf.cum_regret@[a].id(), sub));
    assert(log@ =~= l0 + evs);
    assert(ve_ok(us, adds, sub, *player, p_chance, p_player, inf, res, evs));
}""",
        ),
    ],
)
