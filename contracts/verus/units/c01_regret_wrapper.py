P = __file__.rsplit("/units/", 1)[0] + "/prelude/"
UNIT = dict(
    id="c01_regret_wrapper",
    prelude=["floats.rs", "ideal.rs", "std_ext.rs", "infoset_traits.rs"],
    canary_use="broadcast use fl; broadcast use ideal; ax_obeys(); ax_rv_lits();",
    expect=[("src/regret.rs", r"fn optimal_deviations<const PLAYER_ONE: bool>\(\s*start: &Node,\s*chance_info: &\[impl ChanceInfoset\],\s*player_info: &\[impl PlayerInfoset\],\s*strat_info: &\[impl AsRef<\[f64\]>\],\s*\) -> f64"),
            ("src/regret.rs", r"pub\(super\) fn expected\(\s*node: &Node,\s*chance_info: &\[impl ChanceInfoset\],\s*strat_info: \[&\[impl AsRef<\[f64\]>\]; 2\],\s*\) -> f64")],
    assumptions=[
        "uninterpreted floats: `-`, `+`, f64::max are the same functions in spec and code",
        "R5: expected() and optimal_deviations::<P>() are bound to uninterpreted functions of their arguments (expected's value is proved by unit c01_expected; optimal_deviations' value is not proved -- see not_decided)",
    ],
    items=[
        dict(raw="""#[verifier::external_body] pub struct Node { }
pub uninterp spec fn exp_spec<C, S>(start: Node, chance: Seq<C>, s1: Seq<S>, s2: Seq<S>) -> f64;
// best-response value for player one (p1 == true) / minus player two's (p1 == false) against `opp`
pub uninterp spec fn od_spec<C, P, S>(p1: bool, start: Node, chance: Seq<C>, own_info: Seq<P>, opp: Seq<S>) -> f64;
#[verifier::external_body]
pub fn expected(node: &Node, chance_info: &[impl ChanceInfoset], strat_info: [&[impl AsRef<[f64]>]; 2]) -> (r: f64)
    ensures r == exp_spec(*node, chance_info@, strat_info[0]@, strat_info[1]@),
{ unimplemented!() }
#[verifier::external_body]
pub fn optimal_deviations<const PLAYER_ONE: bool>(
    start: &Node, chance_info: &[impl ChanceInfoset], player_info: &[impl PlayerInfoset], strat_info: &[impl AsRef<[f64]>]) -> (r: f64)
    ensures r == od_spec(PLAYER_ONE, *start, chance_info@, player_info@, strat_info@),
{ unimplemented!() }"""),
        dict(file="src/regret.rs", path="fn regret", ret="out", obligation="C01.V.regret.wrapper",
             contract="""ensures
    // reported utility is the expectation under BOTH strategies
    out.0 == exp_spec(*start, chance_info@, strat_info[0]@, strat_info[1]@), // @ob C01.V.regret.utility
    // player one: best response (own infosets, against player TWO's strategy) minus current value, clamped at 0
    // (value clauses in idealised reals, so that operand order in `max` / `+` is immaterial)
    rv(out.1[0]) == (if rv(od_spec(true, *start, chance_info@, player_info[0]@, strat_info[1]@)) - rv(out.0) >= 0real
        { rv(od_spec(true, *start, chance_info@, player_info[0]@, strat_info[1]@)) - rv(out.0) } else { 0real }), // @ob C01.V.regret.player_one
    // player two: sign flipped (payoffs are player one's), against player ONE's strategy
    rv(out.1[1]) == (if rv(od_spec(false, *start, chance_info@, player_info[1]@, strat_info[0]@)) + rv(out.0) >= 0real
        { rv(od_spec(false, *start, chance_info@, player_info[1]@, strat_info[0]@)) + rv(out.0) } else { 0real }), // @ob C01.V.regret.player_two""",
             entry="broadcast use fl; broadcast use ideal;\nproof { ax_obeys(); ax_rv_lits(); }"),
    ],
)
