UNIT = dict(
    id="c19_distance",
    prelude=["floats.rs", "ideal.rs"],
    canary_use="broadcast use fl; broadcast use ideal; broadcast use ideal_casts; broadcast use ax_rv_abs; ax_obeys(); ax_rv_lits(); ax_rpow_nonneg(1real, 1real); ax_rpow_zero(1real, 1real); ax_rpow_zero(0real, 1real);",
    # the adapter chain the per-player closure is passed to, and the two panics in front of it
    expect=[("src/lib.rs", r"pub fn distance\(&self, other: &Self, p: f64\) -> \[f64; 2\] \{\s*assert!\(\s*self\.game == other\.game,[^;]*;\s*assert!\(p > 0\.0,[^;]*;\s*let dists: Vec<_> = self\s*\.probs\s*\.iter\(\)\s*\.zip\(other\.probs\.iter\(\)\)\s*\.zip\(self\.game\.player_infosets\.iter\(\)\)\s*\.map\(\|\(\(left, right\), info\)\| \{"),
            ("src/lib.rs", r"\}\)\s*\.collect\(\);\s*dists\.try_into\(\)\.unwrap\(\)\s*\}\s*/// Get regret and utility information")],
    assumptions=[
        "idealised-real float mode (rounding, overflow, NaN ignored): powf denotes a real function rpow with rpow(x,p) >= 0 for x >= 0, and rpow(x,p) == 0 <==> x == 0 for p > 0 (real-analysis axioms); abs denotes |.|; `usize as f64` exact. The bit-precise counterparts for one 2-action infoset and p in {1,2} are the Kani harnesses",
        "BLOCK: the unit is the body of the per-player closure of Strategies::distance; the chain `self.probs.iter().zip(other.probs.iter()).zip(self.game.player_infosets.iter()).map(F).collect()` and the final `try_into().unwrap()` are std code, pinned textually (any other shape is reported undecided) and trusted to apply F to player one's and player two's (left, right, infosets) in order",
        "both profiles have dense vectors of the same length (they belong to the same game: the assert in front, decided by the Kani panic harnesses)",
        "symmetry / non-negativity / zero-iff-equal are lemmas over the formula the code is proved to compute (two-run properties cannot be postconditions of one call)",
    ],
    items=[
        dict(raw="""#[verifier::external_body]
#[verifier::reject_recursive_types(I)]
#[verifier::reject_recursive_types(A)]
pub struct PlayerInfosetData<I, A> { _i: core::marker::PhantomData<(I, A)> }
pub uninterp spec fn rabs(x: real) -> real;
pub broadcast axiom fn ax_rv_abs(a: f64) ensures rv(#[trigger] fabsf(a)) == (if rv(a) >= 0real { rv(a) } else { 0real - rv(a) });
// real-analysis facts about x^p
pub axiom fn ax_rpow_nonneg(x: real, p: real) requires x >= 0real ensures rpow(x, p) >= 0real;
pub axiom fn ax_rpow_zero(x: real, p: real) requires x >= 0real, p > 0real ensures (rpow(x, p) == 0real) == (x == 0real);
pub open spec fn adiff(a: f64, b: f64) -> real { if rv(a) - rv(b) >= 0real { rv(a) - rv(b) } else { rv(b) - rv(a) } }
// sum_{i<k} |l_i - r_i|^p
pub open spec fn dsum(l: Seq<f64>, r: Seq<f64>, p: real, k: int) -> real decreases k {
    if k <= 0 { 0real } else { dsum(l, r, p, k - 1) + rpow(adiff(l[k - 1], r[k - 1]), p) }
}
// documented value for one player: the sum over the dense vector divided by the number of infosets
// (0 for a player without multi-action infosets)
pub open spec fn dist_spec(l: Seq<f64>, r: Seq<f64>, p: real, n: int) -> real {
    if n == 0 { 0real } else { dsum(l, r, p, l.len() as int) / (n as real) }
}
pub proof fn lemma_dsum_symmetric(l: Seq<f64>, r: Seq<f64>, p: real, k: int)
    ensures dsum(l, r, p, k) == dsum(r, l, p, k), // @ob C19.V.distance.symmetric
    decreases k
{
    if k > 0 { lemma_dsum_symmetric(l, r, p, k - 1); assert(adiff(l[k - 1], r[k - 1]) == adiff(r[k - 1], l[k - 1])); }
}
pub proof fn lemma_dsum_nonneg(l: Seq<f64>, r: Seq<f64>, p: real, k: int)
    ensures dsum(l, r, p, k) >= 0real, // @ob C19.V.distance.nonneg
    decreases k
{
    if k > 0 { lemma_dsum_nonneg(l, r, p, k - 1); ax_rpow_nonneg(adiff(l[k - 1], r[k - 1]), p); }
}
pub proof fn lemma_dsum_zero_iff(l: Seq<f64>, r: Seq<f64>, p: real, k: int)
    requires p > 0real, 0 <= k <= l.len(), k <= r.len(),
    ensures (dsum(l, r, p, k) == 0real) == (forall|i: int| 0 <= i < k ==> rv(#[trigger] l[i]) == rv(r[i])), // @ob C19.V.distance.zero_iff_equal
    decreases k
{
    if k > 0 {
        lemma_dsum_zero_iff(l, r, p, k - 1);
        lemma_dsum_nonneg(l, r, p, k - 1);
        ax_rpow_nonneg(adiff(l[k - 1], r[k - 1]), p);
        ax_rpow_zero(adiff(l[k - 1], r[k - 1]), p);
        if dsum(l, r, p, k) == 0real {
            assert(rv(l[k - 1]) == rv(r[k - 1]));
            assert forall|i: int| 0 <= i < k implies rv(#[trigger] l[i]) == rv(r[i]) by { if i < k - 1 { } }
        }
        if forall|i: int| 0 <= i < k ==> rv(#[trigger] l[i]) == rv(r[i]) {
            assert(rv(l[k - 1]) == rv(r[k - 1]));
            assert(dsum(l, r, p, k - 1) == 0real);
        }
    }
}
// the per-player distance is symmetric, non-negative, and zero exactly for equal (real-valued) profiles
pub proof fn lemma_dist_metric_facts(l: Seq<f64>, r: Seq<f64>, p: real, n: int)
    requires p > 0real, l.len() == r.len(), n >= 0,
    ensures
        dist_spec(l, r, p, n) == dist_spec(r, l, p, n), // @ob C19.V.distance.symmetric
        dist_spec(l, r, p, n) >= 0real, // @ob C19.V.distance.nonneg
        n > 0 ==> ((dist_spec(l, r, p, n) == 0real) == (forall|i: int| 0 <= i < l.len() ==> rv(#[trigger] l[i]) == rv(r[i]))), // @ob C19.V.distance.zero_iff_equal
{
    lemma_dsum_symmetric(l, r, p, l.len() as int);
    lemma_dsum_nonneg(l, r, p, l.len() as int);
    lemma_dsum_zero_iff(l, r, p, l.len() as int);
    if n > 0 {
        let s = dsum(l, r, p, l.len() as int); let d = n as real;
        assert(s / d >= 0real) by(nonlinear_arith) requires s >= 0real, d > 0real;
        assert((s / d == 0real) == (s == 0real)) by(nonlinear_arith) requires d > 0real;
    }
}
"""),
        dict(file="src/lib.rs", path="impl Strategies / fn distance", closure=0, header_re=r"^\|\(\(left, right\), info\)\|$",
             as_fn="distance__per_player", generics="<I, A>",
             params="left: &Box<[f64]>, right: &Box<[f64]>, info: &Box<[PlayerInfosetData<I, A>]>, p: f64",
             ret="out", ret_type="f64",
             obligation="C19.V.distance.formula",
             rules=["R3", "R1", "R9", "R12", "R10"],
             contract="""requires
    left@.len() == right@.len(),
ensures
    rv(out) == dist_spec(left@, right@, rv(p), info@.len() as int), // @ob C19.V.distance.formula""",
             entry="""broadcast use fl; broadcast use ideal; broadcast use ideal_casts; broadcast use ax_rv_abs;
proof { ax_obeys(); ax_rv_lits(); }""",
             loops={0: dict(kind="for", binder="it",
                            head="""invariant
    left@.len() == right@.len(),
    0 <= it.index@ <= left@.len(),
    rv(dist) == dsum(left@, right@, rv(p), it.index@ as int),""",
                            body_start="""broadcast use fl; broadcast use ideal; broadcast use ax_rv_abs;
proof { ax_obeys(); ax_rv_lits(); }
let ghost k = it.index@ as int;
proof { assert(*left_val == left@[k] && *right_val == right@[k]); }""")}),
    ],
)
