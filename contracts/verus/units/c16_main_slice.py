STUBS = r"""
// ---- the library, as far as main() uses it: every call is an uninterpreted function of ALL its
// arguments (what the unit decides is which option / value reaches which call, and what is printed) ----
pub struct RegretParams { pub k: int }
pub open spec fn preset(k: int) -> RegretParams { RegretParams { k } }
impl RegretParams {
    #[verifier::external_body] pub fn vanilla() -> (r: Self) ensures r == preset(0) { unimplemented!() }
    #[verifier::external_body] pub fn lcfr() -> (r: Self) ensures r == preset(1) { unimplemented!() }
    #[verifier::external_body] pub fn cfr_plus() -> (r: Self) ensures r == preset(2) { unimplemented!() }
    #[verifier::external_body] pub fn dcfr() -> (r: Self) ensures r == preset(3) { unimplemented!() }
    #[verifier::external_body] pub fn dcfr_prune() -> (r: Self) ensures r == preset(4) { unimplemented!() }
}
#[derive(Clone, Copy, PartialEq, Eq, Structural)]
pub enum SolveMethod { Full, Sampled, External }
#[verifier::external_body] pub struct Game { }
#[verifier::external_body] pub struct RegretBound { }
#[verifier::external_body] pub struct SolveError { }
impl core::fmt::Debug for SolveError { #[verifier::external_body] fn fmt(&self, f: &mut core::fmt::Formatter<'_>) -> core::fmt::Result { unimplemented!() } }
// a strategy profile is identified by an abstract value
pub struct Strategies { pub id: int }
#[derive(Clone, Copy)]
pub struct StrategiesInfo { pub id: int }
pub uninterp spec fn solve_spec(game: Game, method: SolveMethod, max_iter: u64, max_reg: f64, threads: usize, params: Option<RegretParams>) -> int;
pub uninterp spec fn trunc_spec(strat: int, thresh: f64) -> int;
pub uninterp spec fn info_spec(strat: int) -> int;
pub uninterp spec fn regret_of(info: int) -> f64;
pub uninterp spec fn util_of(info: int, num: PlayerNum) -> f64;
pub uninterp spec fn pregret_of(info: int, num: PlayerNum) -> f64;
pub uninterp spec fn named_spec(strat: int, player: int) -> int;
impl Game {
    // (Game::solve: C05/C06/...; the CLI unwraps its result: a solver error is a panic, not decided here)
    #[verifier::external_body]
    pub fn solve(&self, method: SolveMethod, max_iter: u64, max_reg: f64, num_threads: usize, params: Option<RegretParams>) -> (r: Result<(Strategies, RegretBound), SolveError>)
        ensures r is Ok, r->Ok_0.0.id == solve_spec(*self, method, max_iter, max_reg, num_threads, params),
    { unimplemented!() }
}
impl Clone for Strategies {
    #[verifier::external_body]
    fn clone(&self) -> (r: Self) ensures r.id == self.id { unimplemented!() }
}
#[derive(Clone, Copy)]
pub struct NamedIter { pub id: int }
impl Strategies {
    #[verifier::external_body] pub fn get_info(&self) -> (r: StrategiesInfo) ensures r.id == info_spec(self.id) { unimplemented!() }
    #[verifier::external_body] pub fn truncate(&mut self, thresh: f64) ensures final(self).id == trunc_spec(old(self).id, thresh) { unimplemented!() }
    #[verifier::external_body] pub fn as_named(&self) -> (r: [NamedIter; 2]) ensures r[0].id == named_spec(self.id, 0), r[1].id == named_spec(self.id, 1) { unimplemented!() }
}
impl StrategiesInfo {
    #[verifier::external_body] pub fn regret(&self) -> (r: f64) ensures r == regret_of(self.id) { unimplemented!() }
    #[verifier::external_body] pub fn player_utility(&self, num: PlayerNum) -> (r: f64) ensures r == util_of(self.id, num) { unimplemented!() }
    #[verifier::external_body] pub fn player_regret(&self, num: PlayerNum) -> (r: f64) ensures r == pregret_of(self.id, num) { unimplemented!() }
}
// serialisable strategy: what `impl From<I> for Strategy` builds from a named view (its filter of
// zero-probability actions / duplicate check are not part of this unit)
pub struct Strategy { pub from: Ghost<int> }
#[verifier::external_body]
pub fn __to_strategy(it: NamedIter) -> (r: Strategy) ensures r.from@ == it.id { unimplemented!() }
// std::borrow::Borrow as far as the serialisation filter uses it
pub trait Borrow<T> { spec fn bview(&self) -> T; fn borrow(&self) -> (r: &T) ensures *r == self.bview(); }
pub open spec fn method_of(m: Method) -> SolveMethod { match m { Method::Full => SolveMethod::Full, Method::Sampled => SolveMethod::Sampled, Method::External => SolveMethod::External } }
pub open spec fn preset_of(d: Discount) -> RegretParams { match d { Discount::Vanilla => preset(0), Discount::Lcfr => preset(1), Discount::CfrPlus => preset(2), Discount::Dcfr => preset(3), Discount::DcfrPrune => preset(4) } }
// reading the game: the parsed game and half the constant the two players' payoffs add up to (0 for the
// zero-sum JSON format)
#[verifier::external_body]
pub fn __abs_read(args: &Args) -> (r: (Game, f64)) { unimplemented!() }
#[verifier::external_body]
pub fn __abs_parse() -> (r: Args) { unimplemented!() }
// the profile that is printed: the solver's result for the selected options, or its truncation at the
// clip threshold exactly when that has strictly lower regret
pub open spec fn chosen_of(args: Args, game: Game) -> int {
    let iters = if args.max_iters == 0 { u64::MAX } else { args.max_iters };
    let s0 = solve_spec(game, method_of(args.method), iters, args.max_regret, args.parallel, Some(preset_of(args.discount)));
    let sp = trunc_spec(s0, args.clip_threshold);
    if flt(regret_of(info_spec(sp)), regret_of(info_spec(s0))) { sp } else { s0 }
}
pub open spec fn options_ok(out: Output, args: Args, game: Game) -> bool {
    let inf = info_spec(chosen_of(args, game));
    out.regret == regret_of(inf)
    && out.player_one_regret == pregret_of(inf, PlayerNum::One) && out.player_two_regret == pregret_of(inf, PlayerNum::Two)
    && out.player_one_strategy.from@ == named_spec(chosen_of(args, game), 0) && out.player_two_strategy.from@ == named_spec(chosen_of(args, game), 1)
}
pub open spec fn utilities_ok(out: Output, args: Args, game: Game, sum: f64) -> bool {
    let inf = info_spec(chosen_of(args, game));
    // each player's OWN payoff: the zero-sum utility plus half the constant the payoffs add up to
    // (stated on the real values, so that `sum + u` and `u + sum` are the same thing)
    rv(out.player_one_utility) == rv(util_of(inf, PlayerNum::One)) + rv(sum)
    && rv(out.player_two_utility) == rv(util_of(inf, PlayerNum::Two)) + rv(sum)
}
#[verifier::external_body]
pub fn __abs_print(out: &Output, args: &Args, game: &Game, sum: f64)
    requires
        // the method / preset / budget (0 = unlimited) / threshold / parallelism options reach Game::solve
        // unchanged; the pruned profile is printed exactly when its regret is strictly lower; regrets and
        // strategies (in player order) are those of the printed profile
        options_ok(*out, *args, *game), // @ob C16.V.main.prints_what_the_options_select
        // the printed utilities are the players' own payoffs of the printed profile
        utilities_ok(*out, *args, *game, sum), // @ob C15.V.main.own_payoffs
{ unimplemented!() }
"""
UNIT = dict(
    id="c16_main_slice",
    prelude=["floats.rs", "ideal.rs"],
    canary_use="broadcast use fl; broadcast use ideal; ax_obeys(); ax_rv_lits();",
    assumptions=[
        "R6 slice of the binary's main(): argument parsing (clap), reading / format detection, and the final serde_json write are abstracted; everything in between -- budget 0 = unlimited, method and discount mapping, the call of Game::solve, the clip-threshold comparison, the assembly of the Output record -- is kept verbatim; the library calls are uninterpreted functions of ALL their arguments and the obligation is the precondition of the print stub",
        "Game::solve is assumed to succeed (the CLI unwraps it: a solver error is a panic, C17's business)",
        "floats: `<` uninterpreted (with the IEEE flip facts), the two utility sums in idealised reals so that a commuted operand order is the same value",
        "struct Args is the extracted text with its clap attributes dropped (R0)",
    ],
    items=[
        dict(file="src/lib.rs", path="enum PlayerNum", attrs="#[derive(Copy, Clone, PartialEq, Eq, Structural)]"),
        dict(file="src/main.rs", path="enum Method", attrs="#[derive(Clone, Copy, PartialEq, Eq, Structural)]"),
        dict(file="src/main.rs", path="enum InputFormat", attrs="#[derive(Clone, Copy, PartialEq, Eq, Structural)]"),
        dict(file="src/main.rs", path="enum Discount", attrs="#[derive(Clone, Copy, PartialEq, Eq, Structural)]"),
        dict(file="src/main.rs", path="struct Args", pub_fields=True,
             subst=[(r"(?m)^\s*#\[clap\([^\n]*\)\]\n", "", "R0 clap attributes dropped")]),
        dict(file="src/main.rs", path="struct Output", pub_fields=True),
        dict(raw=STUBS),
        dict(file="src/main.rs", path="impl Discount", members=[
            dict(path="fn into_params", ret="r", vis="pub ", obligation="C16.V.discount.into_params", rules=[],
                 contract="ensures r == preset_of(self), // @ob C16.V.discount.into_params")]),
        dict(file="src/main.rs", path="fn main", obligation="C16.V.main", rules=[],
             sig_subst=[(r"fn main\(\)", "fn cli_main()", "R0 renamed (the generated file has its own empty main)")],
             table=[
                 (r"^let args = Args::parse\(\);$", ("abstract", "let args = __abs_parse();")),
                 (r"^let \(game, sum\) = if args\.input == \"-\" \{.*\};$", ("abstract", "let (game, sum) = __abs_read(&args);")),
                 (r"^if args\.output == \"-\" \{.*\};$", ("abstract", "__abs_print(&out, &args, &game, sum);")),
             ],
             body_subst=[(r"let \[one, two\] = strategies\.as_named\(\);", "let __named = strategies.as_named(); let one = __named[0]; let two = __named[1];", "R3 array pattern on a call result (the stand-in view type is Copy)"),
                         (r"player_one_strategy: one\.into\(\),", "player_one_strategy: __to_strategy(one),", "R5 From<NamedStrategyIter> for Strategy bound"),
                         (r"player_two_strategy: two\.into\(\),", "player_two_strategy: __to_strategy(two),", "R5 idem")],
             entry="broadcast use fl; broadcast use ideal;\nproof { ax_obeys(); ax_rv_lits(); }"),
        dict(file="src/main.rs", path="impl From for Strategy / fn from", closure=0, expr_closure=True,
             header_re=r"^\|\(_\w*, (\w+)\)\|$", as_fn="strategy_from__printed_action", generics="<N: Borrow<f64>>",
             params="$1: &N", ret="out", ret_type="bool",
             obligation="C15.V.output.zero_probability_actions_omitted", rules=[],
             entry="broadcast use fl;\nproof { ax_obeys(); }",
             contract="""ensures
    // an action is printed exactly when its probability is positive
    out == fgt($1.bview(), 0.0f64), // @ob C15.V.output.zero_probability_actions_omitted"""),
    ],
)
