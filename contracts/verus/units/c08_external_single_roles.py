CHANCE_ADV = r"^chance_infosets \.iter_mut\(\) \.for_each\(\|info\| info\.get_mut\(\)\.advance\(\)\);$"
UNIT = dict(
    id="c08_external_single_roles",
    prelude=["floats.rs"],
    canary_use="broadcast use fl; ax_obeys();",
    assumptions=[
        "R6 slice of solve_external_single: the numeric statements are abstracted, but the IDENTIFIERS they mention (which infoset table, which const parameter, which bound variable) are passed through the abstraction rows to stubs whose preconditions state the roles: pass <true> updates player one's table against player two's, pass <false> the reverse; each player's bound comes from its own table with its own FIRST flag; the returned strategies are in player order",
        "the table construction statement is pinned textually (strict row): `let [mut player_one, mut player_two] = player_info.map(..)` binds index 0 to player_one",
    ],
    items=[
        dict(raw="""pub trait ChanceInfoset { }
pub trait PlayerInfoset { }
#[verifier::external_body] pub struct RegretParams { }
#[verifier::external_body] pub struct Node { }
#[derive(Clone, Copy, PartialEq, Eq, Structural)]
pub enum __Role { One, Two }
// bound of a player after a given iteration (uninterpreted)
pub uninterp spec fn reg_tok(role: __Role, it: u64) -> f64;
pub open spec fn is_reg_of(x: f64, role: __Role) -> bool { x == finf() || exists|t: u64| x == #[trigger] reg_tok(role, t) }
pub uninterp spec fn strats_tok() -> [Box<[f64]>; 2];
#[verifier::external_body]
pub fn __abs_traverse(first: bool, active: __Role, external: __Role)
    requires first ==> active == __Role::One && external == __Role::Two, // @ob C08.V.external_single.pass_roles
             !first ==> active == __Role::Two && external == __Role::One, // @ob C08.V.external_single.pass_roles
{ unimplemented!() }
#[verifier::external_body]
pub fn __abs_advance(table: __Role, first: bool, it: u64) -> (r: f64)
    requires first == (table == __Role::One), // @ob C08.V.external_single.advance_flag
    ensures r == reg_tok(table, it),
{ unimplemented!() }
#[verifier::external_body]
pub fn __abs_strats(a: __Role, b: __Role) -> (r: [Box<[f64]>; 2])
    requires a == __Role::One && b == __Role::Two, // @ob C08.V.external_single.strategies_in_player_order
    ensures r == strats_tok(),
{ unimplemented!() }
"""),
        dict(file="src/solve/data.rs", path="type SolveInfo"),
        dict(file="src/solve/external.rs", path="fn solve_external_single", ret="out", n_loops=1,
             obligation="C08.V.external_single.roles",
             table=[
                 (r"^let mut chance_infosets: Box<\[_\]> = chance_info \.iter\(\) \.map\(\|info\| RefCell::new\(SampledChance::new\(info\.probs\(\)\)\)\) \.collect\(\);$", ("abstract", "")),
                 (r"^let \[mut player_one, mut player_two\] = player_info\.map\(\|infos\| \{ infos \.iter\(\) \.map\(\|info\| RefCell::new\(CachedInfoset::new\(info\.num_actions\(\)\)\)\) \.collect::<Box<\[_\]>>\(\) \}\);$",
                  ("abstract", "let player_one = __Role::One; let player_two = __Role::Two;")),
                 (r"^let strats = \[(\w+), (\w+)\]\.map\(.*\);$", ("abstract", r"let strats = __abs_strats(\1, \2);")),
             ],
             loop_tables={0: [
                 (r"^recurse_regret::<(true|false)>\(start, &chance_infosets, &(\w+), &(\w+), &\(\)\);$", ("abstract", r"__abs_traverse(\1, \2, \3);")),
                 (CHANCE_ADV, ("abstract", "")),
                 (r"^(\w+) = (\w+) \.iter_mut\(\) \.map\(\|info\| info\.get_mut\(\)\.advance::<(true|false)>\(it, params\)\) \.sum\(\);$", ("abstract", r"\1 = __abs_advance(\2, \3, it);")),
             ]},
             contract="""ensures
    // player k's reported bound is a bound computed from player k's table; strategies in player order
    is_reg_of(out.0[0], __Role::One) && is_reg_of(out.0[1], __Role::Two), // @ob C08.V.external_single.bounds_in_player_order
    out.1 == strats_tok(),""",
             entry="broadcast use fl;\nproof { ax_obeys(); }",
             loops={0: dict(kind="for", binder="r",
                            head="""invariant
    player_one == __Role::One, player_two == __Role::Two,
    is_reg_of(reg_one, __Role::One), is_reg_of(reg_two, __Role::Two),""",
                            body_start="broadcast use fl;\nproof { ax_obeys(); }")},
        ),
    ],
)
