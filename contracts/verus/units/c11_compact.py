STUBS = """// indexmap::IndexMap as far as compact.rs uses it (assumed contracts restating its documentation): an
// insertion-ordered map seen as a sequence of (key, value) pairs with distinct keys; `entry(k)` is
// Occupied exactly when k is present; inserting through a Vacant entry appends the pair (what happens to
// the map is a prophecy of the entry's use)
#[verifier::external_body]
#[verifier::reject_recursive_types(K)]
#[verifier::reject_recursive_types(V)]
pub struct IndexMap<K, V> { _p: core::marker::PhantomData<(K, V)> }
pub open spec fn key_at<K, V>(s: Seq<(K, V)>, k: K) -> int { choose|i: int| 0 <= i < s.len() && s[i].0 == k }
pub open spec fn has_key<K, V>(s: Seq<(K, V)>, k: K) -> bool { exists|i: int| 0 <= i < s.len() && #[trigger] s[i].0 == k }
pub mod map {
    use super::*;
    #[verifier::external_body]
    #[verifier::reject_recursive_types(K)]
    #[verifier::reject_recursive_types(V)]
    pub struct VacantEntry<'a, K, V> { _p: core::marker::PhantomData<&'a (K, V)> }
    #[verifier::external_body]
    #[verifier::reject_recursive_types(K)]
    #[verifier::reject_recursive_types(V)]
    pub struct OccupiedEntry<'a, K, V> { _p: core::marker::PhantomData<&'a (K, V)> }
    #[verifier::reject_recursive_types(K)]
    #[verifier::reject_recursive_types(V)]
    pub enum Entry<'a, K, V> { Vacant(VacantEntry<'a, K, V>), Occupied(OccupiedEntry<'a, K, V>) }
    impl<'a, K, V> VacantEntry<'a, K, V> {
        #[verifier::prophetic]
        pub uninterp spec fn inserted(&self) -> Option<V>;
        #[verifier::external_body]
        pub fn insert(self, v: V) -> (r: &'a mut V) ensures self.inserted() == Some(v) { unimplemented!() }
    }
    impl<'a, K, V> OccupiedEntry<'a, K, V> {
        pub uninterp spec fn stored(&self) -> V;
        #[verifier::external_body]
        pub fn into_mut(self) -> (r: &'a mut V) ensures *r == self.stored() { unimplemented!() }
    }
}
impl<K, V> IndexMap<K, V> {
    pub uninterp spec fn view(&self) -> Seq<(K, V)>;
    #[verifier::external_body]
    pub fn new() -> (r: Self) ensures r@.len() == 0 { unimplemented!() }
    #[verifier::external_body]
    pub fn len(&self) -> (r: usize) ensures r == self@.len() { unimplemented!() }
    #[verifier::external_body]
    pub fn entry(&mut self, k: K) -> (r: map::Entry<'_, K, V>)
        ensures match r {
            map::Entry::Occupied(e) => has_key(old(self)@, k) && e.stored() == old(self)@[key_at(old(self)@, k)].1 && final(self)@ == old(self)@,
            map::Entry::Vacant(e) => !has_key(old(self)@, k) && final(self)@ == (match e.inserted() { Some(v) => old(self)@.push((k, v)), None => old(self)@ }),
        },
    { unimplemented!() }
}
"""
UNIT = dict(
    id="c11_compact",
    prelude=[],
    canary_use="",
    assumptions=[
        "indexmap::IndexMap is a local declaration with assumed contracts (insertion-ordered sequence of pairs with distinct keys; entry API with a prophecy for what a Vacant entry is used for)",
        "the representation invariant of compact::Builder -- the value stored at position i carries index i -- is assumed at method entry and proved to be established by new() and preserved by entry() + insert(): the indices handed out for infosets are exactly 0, 1, 2, ... in first-seen order, hence in range of the tables from_root builds from the builder's iteration (order preservation of IndexMap::into_iter: assumed)",
        "OptBuilder (chance infosets: optional keys, a counter for anonymous ones) has the same structure and is NOT covered (closure inside Option::ok_or_else)",
    ],
    items=[
        dict(raw=STUBS),
        dict(file="src/compact.rs", path="struct Builder", pub_fields=True, subst=[(r"<K: Hash \+ Eq, V>", "<K, V>", "R0 bounds dropped (Hash/Eq are used only by the stubbed IndexMap)")],
             attrs="#[verifier::reject_recursive_types(K)]\n#[verifier::reject_recursive_types(V)]"),
        dict(file="src/compact.rs", path="struct VacantEntry", pub_fields=True, attrs="#[verifier::reject_recursive_types(K)]\n#[verifier::reject_recursive_types(V)]"),
        dict(file="src/compact.rs", path="struct OccupiedEntry", pub_fields=True, attrs="#[verifier::reject_recursive_types(K)]\n#[verifier::reject_recursive_types(V)]"),
        dict(file="src/compact.rs", path="enum Entry", attrs="#[verifier::reject_recursive_types(K)]\n#[verifier::reject_recursive_types(V)]"),
        dict(raw="""// representation invariant: dense indices in insertion order
pub open spec fn dense<K, V>(s: Seq<(K, (usize, V))>) -> bool { forall|i: int| 0 <= i < s.len() ==> (#[trigger] s[i]).1.0 == i }
// entry() on a new key followed by insert() appends (key, (number of keys so far, value)): the
// invariant is preserved, so the k-th distinct infoset gets index k
pub proof fn lemma_dense_preserved<K, V>(s: Seq<(K, (usize, V))>, key: K, ind: usize, val: V)
    requires dense(s), ind == s.len(),
    ensures dense(s.push((key, (ind, val)))), // @ob C11.V.compact.dense_preserved
{
    let t = s.push((key, (ind, val)));
    assert forall|i: int| 0 <= i < t.len() implies (#[trigger] t[i]).1.0 == i by { if i < s.len() { assert(t[i] == s[i]); } }
}
"""),
        dict(file="src/compact.rs", path="impl Builder", header_subst=[(r"<K: Hash \+ Eq, V>", "<K, V>", "R0 bounds dropped")], members=[
            dict(path="fn new", ret="r", vis="pub ", obligation="C11.V.compact.new_dense", rules=[],
                 contract="ensures dense(r.map@), r.map@.len() == 0, // @ob C11.V.compact.new_dense"),
            dict(path="fn entry", ret="r", vis="pub ", obligation="C11.V.compact.entry_index", rules=[],
                 contract="""requires
    dense(old(self).map@),
ensures
    match r {
        // a key seen before: the entry carries the index it was given then (its position)
        Entry::Occupied(e) => has_key(old(self).map@, key) && e.ent.stored().0 == key_at(old(self).map@, key) && final(self).map@ == old(self).map@, // @ob C11.V.compact.entry_index
        // a new key: the entry carries the next index, the number of keys seen so far
        Entry::Vacant(e) => !has_key(old(self).map@, key) && e.ind == old(self).map@.len()
            && final(self).map@ == (match e.ent.inserted() { Some(v) => old(self).map@.push((key, v)), None => old(self).map@ }), // @ob C11.V.compact.entry_index
    },""",
                 entry="""proof {
    // distinct keys: the position of a present key is determined (IndexMap), and the dense invariant
    // says the stored index is that position
    assert(has_key(self.map@, key) ==> self.map@[key_at(self.map@, key)].1.0 == key_at(self.map@, key));
}"""),
        ]),
        dict(file="src/compact.rs", path="impl VacantEntry", header_subst=[(r"<K: Hash \+ Eq, V>", "<K, V>", "R0 bounds dropped")], members=[
            dict(path="fn insert", ret="r", vis="pub ", obligation="C11.V.compact.insert_returns_index", rules=[],
                 contract="""ensures
    // the value is stored together with the index the entry carries, and that index is returned
    r == self.ind && self.ent.inserted() == Some((self.ind, val)), // @ob C11.V.compact.insert_returns_index"""),
        ]),
        dict(file="src/compact.rs", path="impl OccupiedEntry", header_subst=[(r"<'a, K: Hash \+ Eq, V>", "<'a, K, V>", "R0 bounds dropped")], members=[
            dict(path="fn get", ret="r", vis="pub ", obligation="C11.V.compact.get_returns_index", rules=[],
                 contract="""ensures
    r.0 == self.ent.stored().0 && *r.1 == self.ent.stored().1, // @ob C11.V.compact.get_returns_index"""),
        ]),
        dict(file="src/compact.rs", path="impl Iterator for IntoIter / fn next", closure=0, expr_closure=True,
             header_re=r"^\|\((\w+), \(_, (\w+)\)\)\|$", as_fn="intoiter_next__entry", generics="<K, V>",
             params="$1: K, $2: V", ret="out", ret_type="(K, V)",
             obligation="C11.V.compact.into_iter_entry", rules=[],
             contract="""ensures
    // key and stored value are handed over unchanged (the index is dropped: it is the position)
    out.0 == $1 && out.1 == $2, // @ob C11.V.compact.into_iter_entry"""),
    ],
)
