UNIT = dict(
    id="c06_generic_multi_fresh",
    prelude=["workspace.rs"],
    assumptions=[
        "necessary condition only: schedule independence of the worker tasks is NOT decided (no thread reasoning in either tool)",
        "R6 slice of the closure passed to ThreadPool::scope in solve_generic_multi: workspace statements are kept, numeric statements abstracted; thread_threshold and the rayon par_drain/par_extend statement are bound to assumed contracts (prelude/workspace.rs) that restate the anchor's freshness requirement and the rayon/std documentation",
        "queue / work element type and the payoff map are opaque (only emptiness matters)",
    ],
    items=[
        dict(raw="""// ghost flag: the cached chance draws of this iteration have been reset (a fresh draw next pass)
pub struct Draws { pub rearmed: Ghost<bool> }
#[verifier::external_body] pub fn __draws_of_this_pass() -> (d: Draws) ensures !d.rearmed@ { unimplemented!() }
#[verifier::external_body] pub fn __abs_rearm_chance_draws(d: &mut Draws) ensures final(d).rearmed@ { unimplemented!() }"""),
        dict(raw="#[verifier::external_body] pub struct Tgt { }\nimpl Tgt { #[verifier::external_body] pub fn get(&self) -> usize { unimplemented!() } }"),
        dict(file="src/solve/vanilla.rs", path="fn solve_generic_multi", closure=0, header_re=r"^\|_\|$",
             as_fn="solve_generic_multi__scope_body", params="iter: u64, target: Tgt",
             obligation="C06.V.solve_generic_multi.workspace_fresh",
             table=[
                 (r"^let mut queue = Vec::with_capacity\(target\.get\(\)\);$", ("abstract", "let mut queue: Vec<Item> = Vec::with_capacity(target.get());")),
                 (r"^let mut work = Vec::with_capacity\(target\.get\(\)\);$", ("abstract", "let mut work: Vec<Item> = Vec::with_capacity(target.get());")),
                 (r"^let mut payoffs = HashMap::with_capacity\(target\.get\(\)\);$", ("abstract", "let mut payoffs = PayoffMap::with_capacity(target.get());")),
             ],
             loop_tables={0: [
                 (r"^let \[player_one, player_two\] = &mut player_infosets;$", ("abstract", "")),
                 (r"^thread_threshold\( start, &chance_infosets, \[player_one, player_two\], target, &mut queue, &mut work, \);$",
                  ("abstract", "__abs_thread_threshold(&mut queue, &mut work); // @ob C06.V.solve_generic_multi.workspace_fresh")),
                 (r"^let \[player_one, player_two\] = &player_infosets;$", ("abstract", "")),
                 (r"^payoffs\.par_extend\(queue\.par_drain\(\.\.\)\.map\(\|\(node, p_chance, p_player\)\| \{ let payoff = recurse_multi\( node, &chance_infosets, \[player_one, player_two\], p_chance, p_player, &\(\), \); \(ByAddress\(node\), payoff\) \}\)\);$",
                  ("abstract", "__abs_par_drain_into(&mut payoffs, &mut queue); // @ob C06.V.solve_generic_multi.workspace_fresh")),
                 (r"^recurse_multi\( start, &chance_infosets, \[player_one, player_two\], 1\.0, \[1\.0; 2\], &payoffs, \);$", ("abstract", "")),
                 (r"^chance_infosets\.iter_mut\(\)\.for_each\(ChanceRecurse::advance\);$", ("abstract", "__abs_rearm_chance_draws(&mut __draws);"), "optional"),
                 (r"^for \(reg, infos\) in regs\.iter_mut\(\)\.zip\(player_infosets\.iter_mut\(\)\) \{ \*reg = infos\.iter_mut\(\)\.map\(\|info\| info\.advance\(it, params\)\)\.sum\(\); \}$", ("abstract", "")),
                 (r"^let \[reg_one, reg_two\] = regs;$", ("abstract", "")),
                 (r"^if .* \{ break; \}$", ("abstract_break", "if __abs_stop() { break; }")),
                 # a workspace statement made conditional: the condition is an arbitrary boolean here
                 (r"^if [^{]* \{ (queue|work|payoffs)\.clear\(\); \}$", ("abstract", "if __abs_stop() { \\1.clear(); }"), "optional"),
             ]},
             loops={0: dict(kind="for", head="""invariant
    queue@.len() == 0, // @cand queue_empty_at_head
    work@.len() == 0, // @cand work_empty_at_head
    map_len(&payoffs) == 0, // @cand payoffs_empty_at_head""",
                            body_start="let mut __draws = __draws_of_this_pass();",
                            body_end="proof { assert(__draws.rearmed@); } // @ob C10.V.solve_generic_multi.fresh_draw_next_pass")},
        ),
        dict(raw="#[verifier::external_body] pub fn __abs_stop() -> bool { unimplemented!() }"),
    ],
)
