FRESH = "w.queue@.len() == 0 && w.work@.len() == 0 && map_len(&w.payoffs) == 0"
UNIT = dict(
    id="c07_external_fresh",
    prelude=["workspace.rs"],
    assumptions=[
        "necessary condition only: schedules / try_lock uniqueness are NOT decided",
        "R6 slice of external::single_player_iter and of the scope body of solve_external_multi: workspace statements kept, numeric statements abstracted; thread_threshold and the rayon par_drain/par_extend statement bound to assumed contracts (prelude/workspace.rs)",
        "Workspace is extracted with its element types replaced by opaque ones (declared substitution; only emptiness matters)",
    ],
    items=[
        dict(raw="""use std::num::NonZeroUsize;
#[verifier::external_body] #[verifier::reject_recursive_types(T)] pub struct Mutex<T> { _p: core::marker::PhantomData<T> }
#[verifier::external_body] pub struct SampledChance { }
#[verifier::external_body] pub struct CachedInfoset { }
#[verifier::external_body] pub struct RegretParams { }
#[verifier::external_body] pub struct Node { }
#[verifier::external_body] pub fn __abs_f64() -> f64 { unimplemented!() }
#[verifier::external_body] pub fn __abs_stop() -> bool { unimplemented!() }
// the two infoset tables of a pass, as opaque role tokens: the updating ("active") player's and the
// sampled ("external") player's; thread_threshold follows the SAMPLED player's draws, the traversal
// enumerates the active player's actions and samples the external player's
#[derive(Clone, Copy, PartialEq, Eq, Structural)]
pub enum __Role { Active, External }
#[verifier::external_body]
pub fn __abs_thread_threshold_ext(sampled: __Role, queue: &mut Vec<Item>, work: &mut Vec<Item>)
    requires
        sampled == __Role::External, // @ob C07.V.single_player_iter.frontier_follows_sampled_player
        old(queue)@.len() == 0, // @ob C07.V.single_player_iter.workspace_fresh
        old(work)@.len() == 0, // @ob C07.V.single_player_iter.workspace_fresh
{ unimplemented!() }
// only the UPDATING player's infosets are advanced (regret matching / discounting) after its pass
#[verifier::external_body]
pub fn __abs_advance(who: __Role) -> (r: f64)
    requires who == __Role::Active,
{ unimplemented!() }
#[verifier::external_body]
pub fn __abs_roles(active: __Role, external: __Role)
    requires active == __Role::Active, external == __Role::External,
{ unimplemented!() }
// ghost flag: the cached chance draws of this pass have been reset ("a fresh draw is made for the
// next pass"); set only by the abstracted `chance_infosets.iter_mut().for_each(.. advance())`
pub struct Draws { pub rearmed: Ghost<bool> }
#[verifier::external_body] pub fn __draws_of_this_pass() -> (d: Draws) ensures !d.rearmed@ { unimplemented!() }
#[verifier::external_body] pub fn __abs_rearm_chance_draws(d: &mut Draws) ensures final(d).rearmed@ { unimplemented!() }
#[verifier::external_body] pub struct Tgt { }
impl Tgt { #[verifier::external_body] pub fn get(&self) -> usize { unimplemented!() } }
"""),
        dict(file="src/solve/external.rs", path="struct Workspace", pub_fields=True,
             subst=[(r"Vec<&'a Node>", "Vec<Item>", "TYPE-SUBST opaque element type"),
                    (r"HashMap<ByAddress<&'a Node>, f64>", "PayoffMap", "TYPE-SUBST opaque payoff map"),
                    (r"struct Workspace<'a>", "struct Workspace", "TYPE-SUBST lifetime dropped with the element type")]),
        dict(file="src/solve/external.rs", path="impl Workspace<'_>",
             header_subst=[(r"impl Workspace<'_>", "impl Workspace", "TYPE-SUBST lifetime dropped")],
             ghost_members="    pub open spec fn fresh(self) -> bool { self.queue@.len() == 0 && self.work@.len() == 0 && map_len(&self.payoffs) == 0 }",
             helper_candidate="ensures final(self).fresh(),",
             helper_body_subst=[(r"HashMap::with_capacity", "PayoffMap::with_capacity", "TYPE-SUBST opaque payoff map")],
             members=[dict(path="fn with_capacity", ret="r", vis="pub ", obligation="C07.V.workspace.with_capacity_fresh",
                           body_subst=[(r"HashMap::with_capacity", "PayoffMap::with_capacity", "TYPE-SUBST opaque payoff map")],
                           contract="ensures r.fresh(), // @ob C07.V.workspace.with_capacity_fresh")]),
        dict(file="src/solve/external.rs", path="fn single_player_iter", ret="out", n_loops=0,
             obligation="C07.V.single_player_iter.workspace_fresh",
             sig_subst=[(r"work: &mut Workspace<'a>", "work: &mut Workspace", "TYPE-SUBST lifetime dropped")],
             table=[
                 (r"^let \[(\w+), (\w+)\] = player_infosets;$", ("abstract", "let \\1 = __Role::Active; let \\2 = __Role::External;")),
                 (r"^thread_threshold::<FIRST>\( root, chance_infosets, (\w+), target, &mut work\.queue, &mut work\.work, \);$",
                  ("abstract", "__abs_thread_threshold_ext(\\1, &mut work.queue, &mut work.work);")),
                 (r"^work\.payoffs \.par_extend\(work\.queue\.par_drain\(\.\.\)\.map\(\|node\| \{ let payoff = recurse_regret::<FIRST>\( node, chance_infosets, (\w+), (\w+), &\(\), \); \(ByAddress\(node\), payoff\) \}\)\);$",
                  ("abstract", "__abs_roles(\\1, \\2); __abs_par_drain_into(&mut work.payoffs, &mut work.queue); // @ob C07.V.single_player_iter.workspace_fresh")),
                 (r"^recurse_regret::<FIRST>\( root, chance_infosets, (\w+), (\w+), &work\.payoffs, \);$", ("abstract", "__abs_roles(\\1, \\2); // @ob C07.V.single_player_iter.traversal_roles")),
                 (r"^chance_infosets \.iter_mut\(\) \.for_each\(\|info\| info\.get_mut\(\)\.unwrap\(\)\.advance\(\)\);$", ("abstract", "__abs_rearm_chance_draws(&mut __draws);"), "optional"),
                 (r"^(\w+) \.par_iter_mut\(\) \.map\(\|info\| info\.get_mut\(\)\.unwrap\(\)\.advance::<FIRST>\(it, params\)\) \.sum\(\)$", ("abstract", "{ proof { assert(__draws.rearmed@); } // @ob C10.V.single_player_iter.fresh_draw_next_pass\n __abs_advance(\\1) }")),
             ],
             entry="let mut __draws = __draws_of_this_pass();",
             # the modular contract "fresh in, fresh out" is a CANDIDATE (Houdini): a variant that empties the
             # workspace at the start of the pass instead of at its end satisfies the real obligations -- the
             # preconditions of the frontier construction and of the drain into the payoff cache -- without it
             contract="""requires
    true,
    old(work).queue@.len() == 0, // @cand queue_empty_between_passes
    old(work).work@.len() == 0, // @cand work_empty_between_passes
    map_len(&old(work).payoffs) == 0, // @cand payoffs_empty_between_passes
ensures
    true,
    final(work).queue@.len() == 0, // @cand queue_empty_between_passes
    final(work).work@.len() == 0, // @cand work_empty_between_passes
    map_len(&final(work).payoffs) == 0, // @cand payoffs_empty_between_passes"""),
        dict(raw="""// the contract just proved for single_player_iter, used modularly at its two call sites
#[verifier::external_body]
pub fn __abs_single_player_iter(work: &mut Workspace) -> (r: f64)
    requires
        true,
        old(work).queue@.len() == 0, // @cand queue_empty_between_passes
    old(work).work@.len() == 0, // @cand work_empty_between_passes
    map_len(&old(work).payoffs) == 0, // @cand payoffs_empty_between_passes
    ensures
        true,
        final(work).queue@.len() == 0, // @cand queue_empty_between_passes
        final(work).work@.len() == 0, // @cand work_empty_between_passes
        map_len(&final(work).payoffs) == 0, // @cand payoffs_empty_between_passes
{ unimplemented!() }"""),
        dict(file="src/solve/external.rs", path="fn solve_external_multi", closure=0, header_re=r"^\|_\|$",
             as_fn="solve_external_multi__scope_body", params="max_iter: u64, target: Tgt",
             obligation="C07.V.solve_external_multi.workspace_fresh",
             table=[],
             loop_tables={0: [
                 (r"^reg_one = single_player_iter::<true>\( root, &mut chance_infosets, \[&mut player_one, &mut player_two\], target, &mut work, it, params, \);$",
                  ("abstract", "__abs_single_player_iter(&mut work); // @ob C07.V.solve_external_multi.workspace_fresh")),
                 (r"^reg_two = single_player_iter::<false>\( root, &mut chance_infosets, \[&mut player_two, &mut player_one\], target, &mut work, it, params, \);$",
                  ("abstract", "__abs_single_player_iter(&mut work); // @ob C07.V.solve_external_multi.workspace_fresh")),
                 (r"^if .* \{ break; \}$", ("abstract_break", "if __abs_stop() { break; }")),
                 (r"^chance_infosets \.iter_mut\(\) \.for_each\(", ("abstract", ""), "optional"),
             ]},
             loops={0: dict(kind="for", head="invariant\n    true,\n    work.queue@.len() == 0, // @cand queue_empty_between_passes\n    work.work@.len() == 0, // @cand work_empty_between_passes\n    map_len(&work.payoffs) == 0, // @cand payoffs_empty_between_passes")},
        ),
    ],
)
