UNIT = dict(
    id="c08_recurse_regret_dispatch",
    prelude=["floats.rs"],
    canary_use="broadcast use fl; ax_obeys();",
    expect=[("src/solve/external.rs", r"trait ChanceRecurse \{\s*fn next<'a>\(&self, chance: &'a Chance\) -> &'a Node;\s*\}"),
            ("src/solve/external.rs", r"trait ActiveRecurse \{\s*fn recurse\(&self, player: &Player, rec: impl Fn\(&Node\) -> f64\) -> f64;\s*\}"),
            ("src/solve/external.rs", r"trait ExternalRecurse \{\s*fn next_update<'a>\(&self, player: &'a Player\) -> &'a Node;\s*\}"),
            ("src/solve/data.rs", r"trait CachedPayoff \{\s*fn get_payoff\(&self, node: &Node\) -> Option<f64>;\s*\}")],
    assumptions=[
        "the recursive calls of recurse_regret are bound (R5) to an uninterpreted function sub_spec(FIRST, node): the unit proves ONE level of the recursion (which branch is taken for which node, with which continuation), not the fixpoint",
        "the infoset traits are restated with ghost views: ChanceRecurse::next returns the pass's sampled outcome (c10_sampled_chance), ExternalRecurse::next_update the pass's sampled action (c10_cached_infoset), ActiveRecurse::recurse a value determined by the infoset and the node provided its continuation returns sub_spec of the child it is given (CachedInfoset::recurse itself: c08_external_recurse); interior mutability (RefCell / Mutex) behind these traits is opaque",
        "the continuation closure is given the contract `returns sub_spec(FIRST, child)` at its head (contract insertion at a structural anchor); Verus checks the closure body against it",
        "infoset indices in range (wf_game, assumed)",
    ],
    items=[
        dict(file="src/lib.rs", path="enum PlayerNum", attrs="#[derive(Copy, Clone)]"),
        dict(file="src/lib.rs", path="enum Node"),
        dict(file="src/lib.rs", path="struct Chance", pub_fields=True),
        dict(file="src/lib.rs", path="struct Player", pub_fields=True),
        dict(raw="""// value of the (rest of the) sampled traversal below `node` in the pass of player FIRST / second
pub uninterp spec fn sub_spec(first: bool, node: Node) -> f64;
pub trait CachedPayoff {
    spec fn spec_get(&self, node: Node) -> Option<f64>;
    fn get_payoff(&self, node: &Node) -> (r: Option<f64>)
        ensures r == self.spec_get(*node);
}
pub trait ChanceRecurse {
    spec fn next_view(&self, chance: Chance) -> Node;
    fn next<'a>(&self, chance: &'a Chance) -> (r: &'a Node)
        ensures *r == self.next_view(*chance);
}
pub trait ActiveRecurse {
    spec fn recurse_view(&self, first: bool, player: Player) -> f64;
    spec fn pass_first(&self) -> bool;
    fn recurse<F: Fn(&Node) -> f64>(&self, player: &Player, rec: F) -> (r: f64)
        requires
            forall|n: &Node| #[trigger] rec.requires((n,)),
            forall|n: &Node, o: f64| #[trigger] rec.ensures((n,), o) ==> o == sub_spec(self.pass_first(), *n),
        ensures r == self.recurse_view(self.pass_first(), *player);
}
pub trait ExternalRecurse {
    spec fn next_update_view(&self, player: Player) -> Node;
    fn next_update<'a>(&self, player: &'a Player) -> (r: &'a Node)
        ensures *r == self.next_update_view(*player);
}
pub open spec fn is_active(num: PlayerNum, first: bool) -> bool { match num { PlayerNum::One => first, PlayerNum::Two => !first } }
#[verifier::external_body]
pub fn __rec<const FIRST: bool, C: ChanceRecurse, AR: ActiveRecurse, E: ExternalRecurse, CP: CachedPayoff>(
    node: &Node, chance_infosets: &[C], active_player_infosets: &[AR], external_player_infosets: &[E], cached: &CP) -> (r: f64)
    ensures r == sub_spec(FIRST, *node),
{ unimplemented!() }
"""),
        dict(file="src/solve/external.rs", path="fn recurse_regret", ret="r",
             obligation="C08.V.recurse_regret.dispatch",
             rules=["R8"],
             sig_subst=[(r"fn recurse_regret<const FIRST: bool>\(", "fn recurse_regret<const FIRST: bool, C: ChanceRecurse, AR: ActiveRecurse, E: ExternalRecurse, CP: CachedPayoff>(", "R11 impl Trait -> named generics"),
                        (r"&\[impl ChanceRecurse\]", "&[C]", "R11"), (r"&\[impl ActiveRecurse\]", "&[AR]", "R11"),
                        (r"&\[impl ExternalRecurse\]", "&[E]", "R11"), (r"&impl CachedPayoff", "&CP", "R11")],
             body_subst=[(r"recurse_regret::<FIRST>\(", "__rec::<FIRST, C, AR, E, CP>(", "R5 recursive call bound to sub_spec"),
                         (r"\|next\| \{", "|next: &Node| -> (o: f64) ensures o == sub_spec(FIRST, *next) {", "closure contract")],
             contract="""requires
    match *node {
        Node::Terminal(_) => true,
        Node::Chance(ch) => ch.infoset < chance_infosets@.len(),
        Node::Player(pl) => if is_active(pl.num, FIRST) { pl.infoset < active_player_infosets@.len()
                && active_player_infosets@[pl.infoset as int].pass_first() == FIRST }
            else { pl.infoset < external_player_infosets@.len() },
    },
ensures
    // a frontier node already evaluated by a worker is not traversed again
    cached.spec_get(*node) is Some ==> r == cached.spec_get(*node)->0, // @ob C08.V.recurse_regret.cache_hit
    cached.spec_get(*node) is None ==> match *node {
        // payoffs are player one's: the second player's pass sees them negated
        Node::Terminal(pay) => r == (if FIRST { pay } else { fneg(pay) }), // @ob C08.V.recurse_regret.terminal_sign
        // chance: ONLY the sampled outcome is followed
        Node::Chance(ch) => r == sub_spec(FIRST, chance_infosets@[ch.infoset as int].next_view(ch)), // @ob C08.V.recurse_regret.chance_sampled
        // the pass's own player enumerates actions (CachedInfoset::recurse with a continuation that
        // stays in the same pass); the other player's sampled action is followed, and its average
        // strategy updated on the way (next_update)
        Node::Player(pl) => if is_active(pl.num, FIRST) {
                r == active_player_infosets@[pl.infoset as int].recurse_view(FIRST, pl) // @ob C08.V.recurse_regret.active_enumerates
            } else {
                r == sub_spec(FIRST, external_player_infosets@[pl.infoset as int].next_update_view(pl)) // @ob C08.V.recurse_regret.external_sampled
            },
    },""",
             entry="broadcast use fl;\nproof { ax_obeys(); }"),
    ],
)
