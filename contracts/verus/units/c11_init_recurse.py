STUBS = """// the caller's tree type and the three construction tables are opaque; the recursive call is bound (R5)
// to an uninterpreted function of the subtree it is given
#[verifier::external_body] pub struct CT { }
#[verifier::external_body] pub struct PT { }
#[verifier::external_body] pub struct ST { }
pub uninterp spec fn rec_spec<T>(next: T, prev: [Option<usize>; 2]) -> Result<Node, GameError>;
#[verifier::external_body]
pub fn __rec<T>(chance_infosets: &mut CT, player_infosets: &mut PT, single_infosets: &mut ST, next: T, prev_infosets: [Option<usize>; 2]) -> (r: Result<Node, GameError>)
    ensures r == rec_spec(next, prev_infosets),
{ unimplemented!() }
// (same, for the arm that holds the single-action table concretely; the recursion's own effect on the
// tables is not part of this arm's obligation)
#[verifier::external_body]
pub fn __rec_s<I, A, T>(chance_infosets: &mut CT, player_infosets: &mut PT, single_infosets: &mut [&mut HashMap<I, A>; 2], next: T, prev_infosets: [Option<usize>; 2]) -> (r: Result<Node, GameError>)
    ensures r == rec_spec(next, prev_infosets), final(single_infosets)[0]@ == old(single_infosets)[0]@, final(single_infosets)[1]@ == old(single_infosets)[1]@,
{ unimplemented!() }
// compact::OccupiedEntry as far as init_recurse uses it: the index and the value stored under the key
#[verifier::external_body]
#[verifier::reject_recursive_types(V)]
pub struct OccupiedEntry<'a, V> { _p: core::marker::PhantomData<&'a V> }
impl<'a, V> OccupiedEntry<'a, V> {
    pub uninterp spec fn ind(&self) -> usize;
    pub uninterp spec fn val(&self) -> V;
    #[verifier::external_body]
    pub fn get(self) -> (r: (usize, &'a V))
        ensures r.0 == self.ind(), *r.1 == self.val(),
    { unimplemented!() }
}
// compact::VacantEntry: inserting yields the next index; what may be inserted under this key is stated
// by the block's precondition (so that the value built for the new infoset is checked)
#[verifier::external_body]
#[verifier::reject_recursive_types(V)]
pub struct VacantEntry<'a, V> { _p: core::marker::PhantomData<&'a V> }
impl<'a, V> VacantEntry<'a, V> {
    pub uninterp spec fn ind(&self) -> usize;
    pub uninterp spec fn expected(&self, v: V) -> bool;
    #[verifier::external_body]
    pub fn insert(self, val: V) -> (r: usize)
        requires self.expected(val),
        ensures r == self.ind(),
    { unimplemented!() }
}
impl<A> PlayerInfosetBuilder<A> {
    // (real constructor: `actions.into()` + the field)
    #[verifier::external_body]
    pub fn new(actions: Vec<A>, prev_infoset: Option<usize>) -> (r: Self)
        ensures r.actions@ == actions@, r.prev_infoset == prev_infoset,
    { unimplemented!() }
}
// R6: `let hash_names: HashSet<&A> = actions.iter().collect();` -- the set of the listed actions; its size
// equals the number of listed actions exactly when they are pairwise distinct (std + Hash/Eq coherence)
#[verifier::external_body] pub struct NameSet { }
impl NameSet {
    pub uninterp spec fn size(&self) -> usize;
    #[verifier::external_body]
    pub fn len(&self) -> (r: usize) ensures r == self.size() { unimplemented!() }
}
#[verifier::external_body]
pub fn __abs_name_set<A>(actions: &Vec<A>) -> (r: NameSet)
    ensures (r.size() == actions@.len()) == actions@.no_duplicates(),
{ unimplemented!() }
pub open spec fn prev_of(num: PlayerNum, prev: [Option<usize>; 2]) -> Option<usize> { match num { PlayerNum::One => prev[0], PlayerNum::Two => prev[1] } }
// R6 (multi-action decision node): interning of the infoset (the entry match, under contract in its
// two arms above) and construction of the children (a map/collect chain over the recursive call)
pub uninterp spec fn intern_spec<I>(num: PlayerNum, infoset: I) -> Result<usize, GameError>;
#[verifier::external_body]
pub fn __abs_intern_player<I>(player_infosets: &mut PT, num: PlayerNum, infoset: I) -> (r: Result<usize, GameError>)
    ensures r == intern_spec(num, infoset),
{ unimplemented!() }
pub uninterp spec fn children_spec<T>(nexts: Seq<T>, prev_one: Option<usize>, prev_two: Option<usize>) -> Result<Box<[Node]>, GameError>;
#[verifier::external_body]
pub fn __abs_build_children<T>(chance_infosets: &mut CT, player_infosets: &mut PT, single_infosets: &mut ST, nexts: Vec<T>, prev_infosets: [Option<usize>; 2]) -> (r: Result<Box<[Node]>, GameError>)
    ensures r == children_spec(nexts@, prev_infosets[0], prev_infosets[1]),
{ unimplemented!() }
pub open spec fn with_prev(prev: [Option<usize>; 2], num: PlayerNum, ind: usize) -> (Option<usize>, Option<usize>) {
    match num { PlayerNum::One => (Some(ind), prev[1]), PlayerNum::Two => (prev[0], Some(ind)) }
}
// R6: the arms that intern an infoset / handle a single-action node (under contract above, or not
// covered: see the unit's assumptions) as uninterpreted functions of what they are given
pub uninterp spec fn chance_node_spec<CI>(info: Option<CI>, probs: Seq<f64>, outcomes: Seq<Node>) -> Result<Node, GameError>;
#[verifier::external_body]
pub fn __abs_chance_node<CI>(chance_infosets: &mut CT, info: Option<CI>, probs: Vec<f64>, outcomes: Vec<Node>) -> (r: Result<Node, GameError>)
    ensures r == chance_node_spec(info, probs@, outcomes@),
{ unimplemented!() }
pub uninterp spec fn single_action_spec<I, A, T>(num: PlayerNum, infoset: I, actions: Seq<A>, nexts: Seq<T>, prev: [Option<usize>; 2]) -> Result<Node, GameError>;
pub uninterp spec fn decision_spec<I, A, T>(num: PlayerNum, infoset: I, actions: Seq<A>, nexts: Seq<T>, prev: [Option<usize>; 2]) -> Result<Node, GameError>;
#[verifier::external_body]
pub fn __abs_single_action<I, A, T>(chance_infosets: &mut CT, player_infosets: &mut PT, single_infosets: &mut ST, num: PlayerNum, infoset: I, actions: Vec<A>, nexts: Vec<T>, prev: [Option<usize>; 2]) -> (r: Result<Node, GameError>)
    ensures r == single_action_spec(num, infoset, actions@, nexts@, prev),
{ unimplemented!() }
#[verifier::external_body]
pub fn __abs_decision<I, A, T>(chance_infosets: &mut CT, player_infosets: &mut PT, single_infosets: &mut ST, num: PlayerNum, infoset: I, actions: Vec<A>, nexts: Vec<T>, prev: [Option<usize>; 2]) -> (r: Result<Node, GameError>)
    ensures r == decision_spec(num, infoset, actions@, nexts@, prev),
{ unimplemented!() }
// std::collections::HashMap entry API as far as the single-action arm uses it (assumed contracts): the
// map is seen through a ghost view; `entry(k)` is Occupied exactly when k is present, a Vacant entry
// that is `insert`ed adds the binding (what happens to the map is a prophecy of the entry's use:
// standard for entry APIs), an Occupied entry read with `get` changes nothing
#[verifier::external_body]
#[verifier::reject_recursive_types(K)]
#[verifier::reject_recursive_types(V)]
pub struct HashMap<K, V> { _p: core::marker::PhantomData<(K, V)> }
pub mod hash_map {
    use super::*;
    #[verifier::external_body]
    #[verifier::reject_recursive_types(K)]
    #[verifier::reject_recursive_types(V)]
    pub struct OccupiedEntry<'a, K, V> { _p: core::marker::PhantomData<&'a (K, V)> }
    #[verifier::external_body]
    #[verifier::reject_recursive_types(K)]
    #[verifier::reject_recursive_types(V)]
    pub struct VacantEntry<'a, K, V> { _p: core::marker::PhantomData<&'a (K, V)> }
    #[verifier::reject_recursive_types(K)]
    #[verifier::reject_recursive_types(V)]
    pub enum Entry<'a, K, V> { Occupied(OccupiedEntry<'a, K, V>), Vacant(VacantEntry<'a, K, V>) }
    impl<'a, K, V> OccupiedEntry<'a, K, V> {
        pub uninterp spec fn stored(&self) -> V;
        #[verifier::external_body]
        pub fn get(&self) -> (r: &V) ensures *r == self.stored() { unimplemented!() }
    }
    impl<'a, K, V> VacantEntry<'a, K, V> {
        #[verifier::prophetic]
        pub uninterp spec fn inserted(&self) -> Option<V>;
        #[verifier::external_body]
        pub fn insert(self, v: V) -> (r: &'a mut V) ensures self.inserted() == Some(v) { unimplemented!() }
    }
}
impl<K, V> HashMap<K, V> {
    pub uninterp spec fn view(&self) -> Map<K, V>;
    #[verifier::external_body]
    pub fn entry(&mut self, k: K) -> (r: hash_map::Entry<'_, K, V>)
        ensures match r {
            hash_map::Entry::Occupied(e) => old(self)@.contains_key(k) && e.stored() == old(self)@[k] && final(self)@ == old(self)@,
            hash_map::Entry::Vacant(e) => !old(self)@.contains_key(k) && final(self)@ == (match e.inserted() { Some(v) => old(self)@.insert(k, v), None => old(self)@ }),
        },
    { unimplemented!() }
}
// `&A != &A` on the user's action type: the negation of its ==, taken to be equality of the abstract values
pub axiom fn ax_action_ne<A: PartialEq>()
    ensures <&A as PartialEqSpec<&A>>::obeys_eq_spec(),
        forall|a: &A, b: &A| #[trigger] <&A as PartialEqSpec<&A>>::eq_spec(&a, &b) == (*a == *b);
// `*info.actions != *actions` / `*data.probs != *probs`: slice comparison, element by element with the
// element type's == (assumed to be equality of the abstract values: Eq coherence of user types; for
// f64 the IEEE ==, under which a stored NaN never compares equal)
#[verifier::external_body]
pub fn __slice_ne<A>(a: &[A], b: &[A]) -> (r: bool)
    ensures r == (a@ != b@),
{ unimplemented!() }
// an outcome weight the documented contract allows: positive (so not NaN) and finite
pub open spec fn legal_weight(p: f64) -> bool { fgt(p, 0.0f64) && fisfinite(p) }
"""
UNIT = dict(
    id="c11_init_recurse",
    prelude=["floats.rs"],
    canary_use="broadcast use fl; ax_obeys(); ax_ieee_class();",
    assumptions=[
        "uninterpreted float mode plus the IEEE classification facts (ax_ieee_class, discharged by the Kani harness ieee_classification)",
        "BLOCK units on the real Game::init_recurse: the terminal arm and the body of the loop over a chance node's outcomes; the recursive call is bound (R5) to an uninterpreted function of the subtree; the three construction tables (IndexMap / HashMap builders) are opaque",
        "NOT covered: the infoset-consistency rules (equal probabilities / equal actions / distinct actions / perfect recall) which live in IndexMap / HashMap / HashSet entry code, the composition over the tree (`succeeds iff every node satisfies every rule`), and from_root's final conversion of the builders",
    ],
    items=[
        dict(file="src/lib.rs", path="enum PlayerNum", attrs="#[derive(Copy, Clone)]"),
        dict(file="src/lib.rs", path="enum Node"),
        dict(file="src/lib.rs", path="struct Chance", pub_fields=True),
        dict(file="src/lib.rs", path="struct Player", pub_fields=True),
        dict(file="src/error.rs", path="enum GameError", attrs="#[derive(Clone, Copy)]"),
        dict(file="src/lib.rs", path="struct PlayerInfosetBuilder", pub_fields=True),
        dict(file="src/lib.rs", path="struct ChanceInfosetData", pub_fields=True),
        dict(raw=open(__file__.rsplit("/units/", 1)[0] + "/prelude/playernum.rs").read()),
        dict(raw=STUBS),
        dict(file="src/lib.rs", path="impl Game / fn init_recurse", arm_re=r"GameNode::Terminal\(payoff\) => ", arm_count=1,
             as_fn="init_recurse__terminal", params="payoff: f64",
             ret="out", ret_type="Result<Node, GameError>",
             obligation="C11.V.init_recurse.terminal_finite", rules=[],
             entry="broadcast use fl;\nproof { ax_obeys(); ax_ieee_class(); }",
             contract="""ensures
    // a leaf is accepted exactly when its payoff is a finite number
    fisfinite(payoff) ==> out == Ok::<Node, GameError>(Node::Terminal(payoff)), // @ob C11.V.init_recurse.terminal_finite
    !fisfinite(payoff) ==> out is Err, // @ob C11.V.init_recurse.terminal_finite"""),
        dict(file="src/lib.rs", path="impl Game / fn init_recurse", loop=0, n_loops=3,
             header_re=r"^for \(prob, next\) in raw_outcomes$",
             as_fn="init_recurse__chance_outcome", generics="<T>",
             params="prob: f64, next: T, probs: &mut Vec<f64>, outcomes: &mut Vec<Node>, chance_infosets: &mut CT, player_infosets: &mut PT, single_infosets: &mut ST, prev_infosets: [Option<usize>; 2]",
             ret="out", ret_type="Result<(), GameError>", exit="Ok(())", allow_return=True,
             obligation="C11.V.init_recurse.chance_weight", rules=[],
             body_subst=[(r"Game::init_recurse\(", "__rec(", "R5 recursive call bound to rec_spec")],
             entry="broadcast use fl;\nproof { ax_obeys(); ax_ieee_class(); }",
             contract="""ensures
    // an outcome whose weight is not a positive finite number is rejected (and its subtree not built)
    !legal_weight(prob) ==> out is Err && out->Err_0 == GameError::NonPositiveChance
        && final(probs)@ == old(probs)@ && final(outcomes)@ == old(outcomes)@, // @ob C11.V.init_recurse.chance_weight
    // otherwise the weight is recorded with the subtree built for this outcome (same order), and an
    // error inside the subtree is passed on
    legal_weight(prob) ==> match rec_spec(next, prev_infosets) {
        Ok(n) => out is Ok && final(probs)@ == old(probs)@.push(prob) && final(outcomes)@ == old(outcomes)@.push(n),
        Err(e) => out is Err && out->Err_0 == e,
    }, // @ob C11.V.init_recurse.chance_outcome_kept"""),
        dict(file="src/lib.rs", path="impl Game / fn init_recurse", arm_re=r"compact::Entry::Occupied\(ent\) => \{", arm_count=2, arm_index=1,
             as_fn="init_recurse__player_infoset_seen_before", generics="<'a, A>",
             params="ent: OccupiedEntry<'a, PlayerInfosetBuilder<A>>, actions: Vec<A>, player_num: PlayerNum, prev_infosets: [Option<usize>; 2]",
             ret="out", ret_type="Result<usize, GameError>",
             obligation="C11.V.init_recurse.player_infoset_consistent", rules=[],
             body_subst=[(r"\*info\.actions != \*actions", "__slice_ne(&info.actions, &actions)", "R5 slice comparison bound to sequence inequality")],
             contract="""ensures
    // a decision node of an infoset seen before must list the same actions in the same order, and the
    // player must have come through the same previous infoset (perfect recall); only then does the node
    // join that infoset
    ent.val().actions@ != actions@ ==> out is Err && out->Err_0 == GameError::ActionsNotEqual, // @ob C11.V.init_recurse.same_actions
    ent.val().actions@ == actions@ && ent.val().prev_infoset != (match player_num { PlayerNum::One => prev_infosets[0], PlayerNum::Two => prev_infosets[1] })
        ==> out is Err && out->Err_0 == GameError::ImperfectRecall, // @ob C11.V.init_recurse.perfect_recall
    ent.val().actions@ == actions@ && ent.val().prev_infoset == (match player_num { PlayerNum::One => prev_infosets[0], PlayerNum::Two => prev_infosets[1] })
        ==> out == Ok::<usize, GameError>(ent.ind()), // @ob C11.V.init_recurse.joins_infoset"""),
        dict(file="src/lib.rs", path="impl Game / fn init_recurse", arm_re=r"compact::Entry::Occupied\(ent\) => \{", arm_count=2, arm_index=0,
             as_fn="init_recurse__chance_infoset_seen_before", generics="<'a>",
             params="ent: OccupiedEntry<'a, ChanceInfosetData>, probs: Vec<f64>",
             ret="out", ret_type="Result<usize, GameError>", allow_return=True, wrap_tail=("Ok(", ")"),
             obligation="C11.V.init_recurse.chance_infoset_consistent", rules=[],
             body_subst=[(r"\*data\.probs != \*probs", "__slice_ne(&data.probs, &probs)", "R5 slice comparison bound to sequence inequality")],
             contract="""ensures
    // a chance node of an infoset seen before must have the same (normalised) outcome probabilities in
    // the same order
    ent.val().probs@ != probs@ ==> out is Err && out->Err_0 == GameError::ProbabilitiesNotEqual, // @ob C11.V.init_recurse.same_probabilities
    ent.val().probs@ == probs@ ==> out == Ok::<usize, GameError>(ent.ind()), // @ob C11.V.init_recurse.joins_chance_infoset"""),
        dict(file="src/lib.rs", path="impl Game / fn init_recurse", arm_re=r"compact::Entry::Vacant\(ent\) => \{", arm_count=2, arm_index=1,
             as_fn="init_recurse__player_infoset_new", generics="<'a, A>",
             params="ent: VacantEntry<'a, PlayerInfosetBuilder<A>>, actions: Vec<A>, player_num: PlayerNum, prev_infosets: [Option<usize>; 2]",
             ret="out", ret_type="Result<usize, GameError>",
             obligation="C11.V.init_recurse.player_infoset_new", rules=[],
             table=[(r"^let hash_names: HashSet<&A> = actions\.iter\(\)\.collect\(\);$", ("abstract", "let hash_names = __abs_name_set(&actions);"))],
             contract="""requires
    forall|v: PlayerInfosetBuilder<A>| ent.expected(v) == (v.actions@ == actions@ && v.prev_infoset == prev_of(player_num, prev_infosets)),
ensures
    // a new infoset must list pairwise distinct actions; it is then recorded with exactly these actions
    // and THIS player's previous infoset (the insert precondition), under the next index
    !actions@.no_duplicates() ==> out is Err && out->Err_0 == GameError::ActionsNotUnique, // @ob C11.V.init_recurse.distinct_actions
    actions@.no_duplicates() ==> out == Ok::<usize, GameError>(ent.ind()), // @ob C11.V.init_recurse.records_infoset"""),
        dict(file="src/lib.rs", path="impl Game / fn init_recurse", arm_re=r"_ => \{(?=\s*let info_ind = )", arm_count=1,
             as_fn="init_recurse__decision_node", generics="<I, T>",
             params="player_num: PlayerNum, infoset: I, nexts: Vec<T>, mut prev_infosets: [Option<usize>; 2], chance_infosets: &mut CT, player_infosets: &mut PT, single_infosets: &mut ST",
             ret="out", ret_type="Result<Node, GameError>", allow_return=True,
             obligation="C11.V.init_recurse.decision_node", rules=["R1"],
             table=[(r"^let info_ind = match player_num\.ind_mut\(player_infosets\)\.entry\(infoset\) \{.*\}\?;$", ("abstract_try", "let info_ind = __abs_intern_player(player_infosets, player_num, infoset)?;")),
                    (r"^let next_verts: Result<Box<\[_\]>, _> = nexts \.into_iter\(\) \.map\(\|next\| \{ Game::init_recurse\( chance_infosets, player_infosets, single_infosets, next, (\w+), \) \}\) \.collect\(\);$",
                     ("abstract", r"let next_verts = __abs_build_children(chance_infosets, player_infosets, single_infosets, nexts, \1);"))],
             contract="""ensures
    // perfect-recall bookkeeping: the subtrees below a multi-action decision node are built knowing
    // that THIS player last passed through THIS infoset (the other player's memory unchanged), and the
    // node carries the player, the interned infoset index and the children in order
    match intern_spec(player_num, infoset) {
        Err(e) => out is Err && out->Err_0 == e,
        Ok(ind) => match children_spec(nexts@, with_prev(prev_infosets, player_num, ind).0, with_prev(prev_infosets, player_num, ind).1) {
            Err(e) => out is Err && out->Err_0 == e,
            Ok(kids) => out is Ok && out->Ok_0 == Node::Player(Player { num: player_num, infoset: ind, actions: kids }),
        },
    }, // @ob C11.V.init_recurse.recall_bookkeeping"""),
        dict(file="src/lib.rs", path="impl Game / fn init_recurse", arm_re=r"(?=match outcomes\.len\(\) \{)", arm_count=1,
             as_fn="init_recurse__chance_dispatch", generics="<CI>",
             params="mut outcomes: Vec<Node>, probs: Vec<f64>, info: Option<CI>, chance_infosets: &mut CT",
             ret="out", ret_type="Result<Node, GameError>",
             obligation="C11.V.init_recurse.chance_dispatch", rules=[], allow_return=True,
             body_subst=[(r"(?s)_ => \{\s*(?://[^\n]*\n\s*)*let total: f64 = probs\.iter\(\)\.sum\(\);.*Ok\(Node::Chance\(Chance::new\(outcomes, ind\)\)\)\s*\}", "_ => __abs_chance_node(chance_infosets, info, probs, outcomes),", "R6 multi-outcome arm (renormalisation + interning) abstracted")],
             contract="""ensures
    // every chance node has at least one outcome; a chance node with ONE outcome is no chance node (its
    // subtree takes its place); otherwise the node is interned
    outcomes@.len() == 0 ==> out is Err && out->Err_0 == GameError::EmptyChance, // @ob C11.V.init_recurse.empty_chance
    outcomes@.len() == 1 ==> out == Ok::<Node, GameError>(outcomes@[0]), // @ob C11.V.init_recurse.single_outcome_elided
    outcomes@.len() >= 2 ==> out == chance_node_spec(info, probs@, outcomes@), // @ob C11.V.init_recurse.chance_dispatch"""),
        dict(file="src/lib.rs", path="impl Game / fn init_recurse", arm_re=r"(?=match actions\.len\(\) \{)", arm_count=1,
             as_fn="init_recurse__player_dispatch", generics="<I, A, T>",
             params="actions: Vec<A>, nexts: Vec<T>, player_num: PlayerNum, infoset: I, prev_infosets: [Option<usize>; 2], chance_infosets: &mut CT, player_infosets: &mut PT, single_infosets: &mut ST",
             ret="out", ret_type="Result<Node, GameError>",
             obligation="C11.V.init_recurse.player_dispatch", rules=[], allow_return=True,
             body_subst=[(r"(?s)1 => \{\s*let action = actions\.pop\(\)\.unwrap\(\);.*?\n                    \}\n", "1 => __abs_single_action(chance_infosets, player_infosets, single_infosets, player_num, infoset, actions, nexts, prev_infosets),\n", "R6 single-action arm abstracted"),
                         (r"(?s)_ => \{\s*let info_ind = match player_num\.ind_mut\(player_infosets\).*\}\)\)\s*\}", "_ => __abs_decision(chance_infosets, player_infosets, single_infosets, player_num, infoset, actions, nexts, prev_infosets),", "R6 multi-action arm abstracted (under contract as init_recurse__decision_node)")],
             contract="""ensures
    // every decision node has at least one action; single-action nodes take the exempt route
    actions@.len() == 0 ==> out is Err && out->Err_0 == GameError::EmptyPlayer, // @ob C11.V.init_recurse.empty_player
    actions@.len() == 1 ==> out == single_action_spec(player_num, infoset, actions@, nexts@, prev_infosets), // @ob C11.V.init_recurse.player_dispatch
    actions@.len() >= 2 ==> out == decision_spec(player_num, infoset, actions@, nexts@, prev_infosets), // @ob C11.V.init_recurse.player_dispatch"""),
        dict(file="src/lib.rs", path="impl Game / fn init_recurse", arm_re=r"1 => \{(?=\s*let action = actions\.pop\(\)\.unwrap\(\);)", arm_count=1,
             as_fn="init_recurse__single_action_node", generics="<I, A: PartialEq, T>",
             params="mut actions: Vec<A>, mut nexts: Vec<T>, player_num: PlayerNum, infoset: I, prev_infosets: [Option<usize>; 2], chance_infosets: &mut CT, player_infosets: &mut PT, single_infosets: &mut [&mut HashMap<I, A>; 2]",
             ret="out", ret_type="Result<Node, GameError>", allow_return=True,
             obligation="C11.V.init_recurse.single_action_node", rules=[],
             body_subst=[(r"Game::init_recurse\(\s*chance_infosets,\s*player_infosets,\s*single_infosets,", "__rec_s(chance_infosets, player_infosets, single_infosets,", "R5 recursive call bound to rec_spec")],
             entry="proof { ax_action_ne::<A>(); }\nlet ghost a0 = actions@[0];\nlet ghost n0 = nexts@[0];\nlet ghost m0 = (match player_num { PlayerNum::One => single_infosets[0]@, PlayerNum::Two => single_infosets[1]@ });",
             contract="""requires
    actions@.len() == 1, nexts@.len() == 1,
ensures
    // a single-action node is no decision: its only action is remembered per infoset (it must be the same
    // action wherever the infoset occurs) and construction continues below it with the players'
    // memories UNCHANGED (single-action nodes are exempt from perfect recall)
    ({ let m0 = (match player_num { PlayerNum::One => old(single_infosets)[0]@, PlayerNum::Two => old(single_infosets)[1]@ });
       m0.contains_key(infoset) && m0[infoset] != actions@[0] ==> out is Err && out->Err_0 == GameError::ActionsNotEqual }), // @ob C11.V.init_recurse.single_action_same
    ({ let m0 = (match player_num { PlayerNum::One => old(single_infosets)[0]@, PlayerNum::Two => old(single_infosets)[1]@ });
       let m1 = (match player_num { PlayerNum::One => final(single_infosets)[0]@, PlayerNum::Two => final(single_infosets)[1]@ });
       !(m0.contains_key(infoset) && m0[infoset] != actions@[0]) ==> out == rec_spec(nexts@[0], prev_infosets)
           && m1 == (if m0.contains_key(infoset) { m0 } else { m0.insert(infoset, actions@[0]) }) }), // @ob C11.V.init_recurse.single_action_recorded_once"""),
        dict(file="src/lib.rs", path="impl Game / fn init_recurse", loop=2, n_loops=3,
             header_re=r"^for \(action, next\) in raw_actions$",
             as_fn="init_recurse__collect_action", generics="<A, T>",
             params="action: A, next: T, actions: &mut Vec<A>, nexts: &mut Vec<T>",
             obligation="C11.V.init_recurse.actions_and_children_paired", rules=[],
             contract="""ensures
    // a decision node's action names and its subtrees are collected pairwise, in the order given (the
    // infoset's action list and the node's child list have the same length and order)
    final(actions)@ == old(actions)@.push(action) && final(nexts)@ == old(nexts)@.push(next), // @ob C11.V.init_recurse.actions_and_children_paired"""),
    ],
)
