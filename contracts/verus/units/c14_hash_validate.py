STUBS = """// R5 / TYPE-SUBST: std::borrow::Borrow and std::collections::HashMap as far as the validation
// kernel of strat_into_box uses them, with assumed contracts restating their documentation
// (Borrow: "the borrowed value"; HashMap::get: the value stored under an equal key, if any)
pub trait Borrow<T> {
    spec fn bview(&self) -> T;
    fn borrow(&self) -> (r: &T)
        ensures *r == self.bview();
}
#[verifier::external_body]
#[verifier::reject_recursive_types(K)]
#[verifier::reject_recursive_types(V)]
pub struct HashMap<K, V> { _p: core::marker::PhantomData<(K, V)> }
impl<K, V> HashMap<K, V> {
    pub uninterp spec fn view(&self) -> Map<K, V>;
    #[verifier::external_body]
    pub fn insert(&mut self, k: K, v: V) -> (r: Option<V>)
        ensures final(self)@ == old(self)@.insert(k, v),
    { unimplemented!() }
    #[verifier::external_body]
    pub fn get(&self, k: &K) -> (r: Option<&V>)
        ensures match r { Some(v) => self@.contains_key(*k) && *v == self@[*k], None => !self@.contains_key(*k) },
    { unimplemented!() }
}
// core: `impl PartialEq<&mut B> for &A where A: PartialEq<B>` compares the pointees (twice here: && vs &mut &)
pub axiom fn ax_ref_eq<A: PartialEq>()
    ensures <&&A as PartialEqSpec<&mut &A>>::obeys_eq_spec(),
        forall|a: &&A, b: &mut &A| #[trigger] <&&A as PartialEqSpec<&mut &A>>::eq_spec(&a, &b) == <A as PartialEqSpec<A>>::eq_spec(&**a, &**b);
pub open spec fn a_eq<A: PartialEq>(x: A, y: &A) -> bool { <A as PartialEqSpec<A>>::eq_spec(&x, y) }
// user key types: a clone is the same abstract key (Clone/Eq/Hash coherence, assumed)
pub axiom fn ax_clone_is_equal<A: Clone>() ensures forall|a: &A, b: A| #[trigger] call_ensures(A::clone, (a,), b) ==> *a == b;
// scanning path: the infoset's action list and the position of an action in it (the
// `iter().enumerate().find(|(_, act)| act == &action)` chain: first position holding an equal action)
pub struct InfoActions<A> { pub actions: Box<[A]> }
#[verifier::external_body]
pub fn __abs_position<A>(actions: &Box<[A]>, action: &A) -> (r: Option<usize>)
    ensures match r { Some(i) => i < actions@.len() && actions@[i as int] == *action, None => !actions@.contains(*action) },
{ unimplemented!() }
// a weight the import accepts: >= 0 (so not NaN) and finite
pub open spec fn legal(p: f64) -> bool { fge(p, 0.0f64) && fisfinite(p) }
"""
UNIT = dict(
    id="c14_hash_validate",
    prelude=["floats.rs"],
    canary_use="broadcast use fl; ax_obeys(); ax_ieee_class(); ax_ref_eq::<u8>();",
    assumptions=[
        "uninterpreted float mode plus the IEEE classification facts of ax_ieee_class (finite <=> neither NaN nor infinite; unordered <=> a NaN operand; discharged for all f64 by the loop-free Kani harness ieee_classification), so that equivalent formulations of `>= 0.0 && is_finite()` are accepted and inequivalent ones are not",
        "BLOCK: the units are the bodies of the two per-(action, weight) loops of Game::strat_into_box (the hashing import path): the validation kernel. What the surrounding loops iterate over, the construction of the two lookup tables, the all-singles-seen check and the agreement with the scanning path are NOT covered",
        "std::borrow::Borrow and HashMap::get are local declarations with assumed contracts (key equality of the map is equality of the abstract keys; Hash/Eq coherence of user types is assumed)",
        "a clone of an action name is the same abstract key (Clone / Eq / Hash coherence of the user's type, assumed)",
        "every index stored in the action table is inside the dense vector: precondition here; the table construction gives infoset k the block [offset_k, offset_k + #actions) and leaves the running index at the total (c14_hash_tables, per infoset), the dense vector is allocated with that total",
    ],
    items=[
        dict(file="src/error.rs", path="enum StratError", attrs="#[derive(PartialEq, Eq)]"),
        dict(raw=STUBS),
        dict(file="src/lib.rs", path="impl Game / fn strat_into_box", loop=3, n_loops=7,
             header_re=r"^for \(baction, bprob\) in actions$",
             as_fn="strat_into_box__multi_entry", generics="<A, BA: Borrow<A>, BP: Borrow<f64>>",
             params="baction: BA, bprob: BP, action_inds: &HashMap<A, usize>, dense: &mut Box<[f64]>",
             ret="out", ret_type="Result<(), StratError>", exit="Ok(())", allow_return=True, continue_as="return Ok(())",
             obligation="C14.V.hash_import.multi_entry",
             rules=["R3", "R1", "R9", "R10"],
             entry="broadcast use fl;\nproof { ax_obeys(); ax_ieee_class(); }",
             contract="""requires
    forall|k: A| action_inds@.contains_key(k) ==> #[trigger] action_inds@[k] < old(dense)@.len(),
ensures
    final(dense)@.len() == old(dense)@.len(),
    // a weight that is negative, NaN or infinite is rejected, whatever the action
    !legal(bprob.bview()) ==> out == Err::<(), StratError>(StratError::InvalidProbability) && final(dense)@ == old(dense)@, // @ob C14.V.hash_import.rejects_bad_weight
    // a legal weight for an action the infoset does not have is rejected
    legal(bprob.bview()) && !action_inds@.contains_key(baction.bview()) ==> out == Err::<(), StratError>(StratError::InvalidAction) && final(dense)@ == old(dense)@, // @ob C14.V.hash_import.rejects_unknown_action
    // otherwise the weight is stored in the action's slot and nothing else changes
    legal(bprob.bview()) && action_inds@.contains_key(baction.bview()) ==> out is Ok
        && final(dense)@ == old(dense)@.update(action_inds@[baction.bview()] as int, bprob.bview()), // @ob C14.V.hash_import.stores_weight"""),
        dict(file="src/lib.rs", path="impl Game / fn strat_into_box", loop=4, n_loops=7,
             header_re=r"^for \(baction, bprob\) in actions$",
             as_fn="strat_into_box__single_entry", generics="<A: PartialEq, BA: Borrow<A>, BP: Borrow<f64>>",
             params="baction: BA, bprob: BP, act: &mut &A, seen: &mut bool",
             ret="out", ret_type="Result<(), StratError>", exit="Ok(())", allow_return=True, continue_as="return Ok(())",
             obligation="C14.V.hash_import.single_entry",
             rules=["R3", "R1", "R9", "R10"],
             entry="broadcast use fl;\nproof { ax_obeys(); ax_ieee_class(); ax_ref_eq::<A>(); }",
             contract="""ensures
    *final(act) == *old(act),
    // the only action of a single-action infoset must be named, with a legal weight; only then is the
    // infoset marked as specified
    !(a_eq(baction.bview(), *old(act))) ==> out == Err::<(), StratError>(StratError::InvalidAction) && *final(seen) == *old(seen), // @ob C14.V.hash_import.single_rejects_other_action
    a_eq(baction.bview(), *old(act)) && !legal(bprob.bview()) ==> out == Err::<(), StratError>(StratError::InvalidProbability) && *final(seen) == *old(seen), // @ob C14.V.hash_import.single_rejects_bad_weight
    a_eq(baction.bview(), *old(act)) && legal(bprob.bview()) ==> out is Ok && *final(seen), // @ob C14.V.hash_import.single_marks_seen"""),
        dict(file="src/lib.rs", path="impl Game / fn strat_into_box_slow", loop=2, n_loops=6,
             header_re=r"^for \(baction, bprob\) in actions$",
             as_fn="strat_into_box_slow__multi_entry", generics="<A, BA: Borrow<A>, BP: Borrow<f64>>",
             params="baction: BA, bprob: BP, info: &InfoActions<A>, info_ind: usize, dense: &mut Box<[f64]>",
             ret="out", ret_type="Result<(), StratError>", exit="Ok(())", allow_return=True, continue_as="return Ok(())",
             obligation="C14.V.scan_import.multi_entry",
             rules=["R3", "R1", "R9", "R10"],
             body_subst=[(r"let \(act_ind, _\) = info\s*\.actions\s*\.iter\(\)\s*\.enumerate\(\)\s*\.find\(\|\(_, act\)\| act == &action\)\s*\.ok_or\(StratError::InvalidAction\)\?;",
                          "let act_ind = __abs_position(&info.actions, action).ok_or(StratError::InvalidAction)?;", "R6 position of the action in the infoset's list (enumerate/find chain)")],
             entry="broadcast use fl;\nproof { ax_obeys(); ax_ieee_class(); }\nlet ghost __l = dense.len(); // brings `len() <= usize::MAX` into scope",
             contract="""requires
    info_ind + info.actions@.len() <= old(dense)@.len(),
ensures
    final(dense)@.len() == old(dense)@.len(),
    // the scanning importer applies the same rules to an (action, weight) entry as the hashing one
    !legal(bprob.bview()) ==> out == Err::<(), StratError>(StratError::InvalidProbability) && final(dense)@ == old(dense)@, // @ob C14.V.scan_import.rejects_bad_weight
    legal(bprob.bview()) && !info.actions@.contains(baction.bview()) ==> out == Err::<(), StratError>(StratError::InvalidAction) && final(dense)@ == old(dense)@, // @ob C14.V.scan_import.rejects_unknown_action
    legal(bprob.bview()) && info.actions@.contains(baction.bview()) ==> out is Ok
        && exists|i: int| 0 <= i < info.actions@.len() && info.actions@[i] == baction.bview()
            && final(dense)@ == old(dense)@.update(info_ind + i, bprob.bview()), // @ob C14.V.scan_import.stores_weight"""),
        # table construction: every action of every multi-action infoset gets the next dense index, in
        # infoset order and action order (the layout the named view and the solvers use)
        dict(file="src/lib.rs", path="impl Game / fn strat_into_box", loop=1, n_loops=7,
             header_re=r"^for action in info\.actions\.iter\(\)$",
             as_fn="strat_into_box__index_action", generics="<A: Clone>",
             params="action: &A, actions: &mut HashMap<A, usize>, mut num_inds: usize",
             ret="out", ret_type="usize", exit="num_inds",
             obligation="C14.V.hash_import.dense_index",
             rules=["R1"],
             contract="""requires
    num_inds < usize::MAX,
ensures
    out == num_inds + 1, // @ob C14.V.hash_import.dense_index
    final(actions)@ == old(actions)@.insert(*action, num_inds), // @ob C14.V.hash_import.dense_index""",
             entry="proof { ax_clone_is_equal::<A>(); }"),
    ],
)
