import importlib.util, os
_s = importlib.util.spec_from_file_location("c09s", os.path.join(os.path.dirname(__file__), "c09_generic_single.py"))
_m = importlib.util.module_from_spec(_s); _s.loader.exec_module(_m)
HEAD = _m.HEAD
UNIT = dict(
    id="c09_generic_multi",
    prelude=["floats.rs", "slice_state.rs"],
    canary_use="broadcast use fl; ax_obeys();",
    assumptions=_m.UNIT["assumptions"] + [
        "BLOCK: the unit is the body of the closure passed to rayon's ThreadPool::scope in solve_generic_multi (the iteration loop); pool construction, its error mapping and the final strategy extraction after the scope are outside it",
    ],
    items=[
        dict(raw="""#[verifier::external_body] pub struct RegretParams { }
"""),
        dict(file="src/solve/vanilla.rs", path="fn solve_generic_multi", closure=0, header_re=r"^\|_\|$",
             as_fn="solve_generic_multi__scope_body",
             params="iter: u64, max_reg: f64, regs: &mut [f64; 2], params: &RegretParams",
             obligation="C09.V.first_below",
             forbidden=["max_reg"],
             table=[
                 (r"^let mut queue = Vec::with_capacity\(target\.get\(\)\);$", ("abstract", "")),
                 (r"^let mut work = Vec::with_capacity\(target\.get\(\)\);$", ("abstract", "")),
                 (r"^let mut payoffs = HashMap::with_capacity\(target\.get\(\)\);$", ("abstract", "")),
             ],
             loop_tables={0: [
                 (r"^let \[player_one, player_two\] = &mut player_infosets;$", ("abstract", "")),
                 (r"^thread_threshold\( start, &chance_infosets, \[player_one, player_two\], target, &mut queue, &mut work, \);$", ("abstract", "")),
                 (r"^let \[player_one, player_two\] = &player_infosets;$", ("abstract", "")),
                 (r"^payoffs\.par_extend\(queue\.par_drain\(\.\.\)\.map\(\|\(node, p_chance, p_player\)\| \{ let payoff = recurse_multi\( node, &chance_infosets, \[player_one, player_two\], p_chance, p_player, &\(\), \); \(ByAddress\(node\), payoff\) \}\)\);$", ("abstract", "")),
                 (r"^recurse_multi\( start, &chance_infosets, \[player_one, player_two\], 1\.0, \[1\.0; 2\], &payoffs, \);$", ("abstract", "")),
                 # workspace maintenance is C06's business: any `queue/work/payoffs .clear()` form is irrelevant here
                 (r"^(queue|work|payoffs)\.clear\(\);$", ("abstract", ""), "optional"),
                 (r"^if [^{]*\{ (queue|work|payoffs)\.clear\(\); \}$", ("abstract", ""), "optional"),
                 (r"^chance_infosets\.iter_mut\(\)\.for_each\(ChanceRecurse::advance\);$", ("abstract", "")),
                 (r"^for \(reg, infos\) in regs\.iter_mut\(\)\.zip\(player_infosets\.iter_mut\(\)\) \{ \*reg = infos\.iter_mut\(\)\.map\(\|info\| info\.advance\(it, params\)\)\.sum\(\); \}$",
                  ("abstract", "__abs_iteration(&mut __st, it, regs);")),
             ]},
             body_subst=[(r"let reg_one = regs\[0\]; let reg_two = regs\[1\];", "let reg_one = regs[0]; let reg_two = regs[1];", "identity")] if False else [],
             contract="""requires
    old(regs)[0] == finf() && old(regs)[1] == finf(),
ensures
    exists|k: nat| k <= iter
        && (forall|j: nat| 1 <= j < k ==> !below(state_after(__s0(), j), max_reg))
        && (k < iter ==> k >= 1 && below(state_after(__s0(), k), max_reg))
        && (k == 0 ==> final(regs)[0] == finf() && final(regs)[1] == finf())
        && (k > 0 ==> (final(regs)[0], final(regs)[1]) == regs_of(state_after(__s0(), k))), // @ob C09.V.first_below.returns_state_k""",
             entry="""broadcast use fl;
proof { ax_obeys(); }
let mut __st = __init_state();
proof { assume(__st.g@ == __s0()); }
let ghost s0 = __st.g@;
let ghost mut k: nat = 0;""",
             loops={0: dict(kind="for", binder="r", head=HEAD,
                            body_start="broadcast use fl;\nproof { ax_obeys(); k = k + 1; }")},
        ),
    ],
)
