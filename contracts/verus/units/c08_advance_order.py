ORDER = """ensures
    // textbook order: the next strategy is matched on the regrets BEFORE discounting ...
    final(self)%(f)s.strat@ == rm_spec(*params, old(self)%(f)s.cum_regret@), // @ob C08.V.advance.match_before_discount
    // ... then regrets and average strategy are discounted with the caller's iteration number ...
    final(self)%(f)s.cum_regret@ == dcr_spec(*params, it, old(self)%(f)s.cum_regret@), // @ob C08.V.advance.discount_regrets
    final(self)%(f)s.cum_strat@ == das_spec(*params, %(it_avg)s, old(self)%(f)s.cum_strat@), // @ob C08.V.advance.discount_average
    // ... and the reported bound is that of the regrets AFTER discounting, same iteration number
    r == cr_spec(*params, it, final(self)%(f)s.cum_regret@), // @ob C02.V.advance.reports_bound"""
UNIT = dict(
    id="c08_advance_order",
    prelude=["floats.rs"],
    canary_use="broadcast use fl; ax_obeys();",
    expect=[("src/solve/vanilla.rs", r"trait MutexPlayerRecurse \{\s*fn update_cum_strat\(&self, prob: f64\);\s*fn advance\(&mut self, it: u64, params: &RegretParams\) -> f64;\s*\}"),
            ("src/solve/data.rs", r"AtomicIter\(self\.iter_mut\(\)\)"), ("src/solve/data.rs", r"self\.0\.next\(\)\.map\(AtomicF64::get_mut\)"),
            ("src/solve/vanilla.rs", r"trait PlayerRecurse \{\s*fn update_cum_strat\(&mut self, prob: f64\);\s*fn advance\(&mut self, it: u64, params: &RegretParams\) -> f64;\s*\}"),
            ("src/solve/external.rs", r"fn advance<const FIRST: bool>\(&mut self, it: u64, params: &RegretParams\) -> f64;")],
    assumptions=[
        "R5: RegretParams::{regret_match, discount_cum_regret, discount_average_strat, cum_regret} are bound to uninterpreted pure functions of their arguments with frames (prelude/params_stub.rs); discharged per helper by Kani harnesses at the bounded level",
        "the generic `R: IntoFloatsMut` parameter of the helpers is instantiated at [f64] (the instance used by RegretInfoset / CachedInfoset)",
        "MutexRegretInfoset is extracted with TYPE-SUBST Box<[AtomicF64]> -> Box<[f64]> (its IntoFloatsMut impl exposes the cells as &mut f64 through AtomicF64::get_mut, checked by `expect`) and a Mutex stub whose get_mut returns the protected value (poisoning not modelled)",
    ],
    items=[
        dict(file="src/solve/data.rs", path="struct RegretParams", attrs="#[derive(Clone, Copy)]"),
        dict(raw=open(__file__.rsplit("/units/", 1)[0] + "/prelude/params_stub.rs").read()),
        dict(file="src/solve/data.rs", path="struct RegretInfoset"),
        dict(raw="""pub trait PlayerRecurse {
    fn update_cum_strat(&mut self, prob: f64);
    fn advance(&mut self, it: u64, params: &RegretParams) -> f64;
}
pub struct Player { }
pub struct Node { }
pub trait ActiveInfo {
    // callers pass the loop variable of `for it in 1..=max_iter`
    fn advance<const FIRST: bool>(&mut self, it: u64, params: &RegretParams) -> f64
        requires it >= 1;
}"""),
        dict(file="src/solve/vanilla.rs", path="impl PlayerRecurse for RegretInfoset", members=[
            dict(path="fn advance", ret="r", obligation="C08.V.advance.order",
                 contract=ORDER % dict(f="", it_avg="it")),
        ]),
        dict(raw="""// R5: std::sync::Mutex as far as `advance` uses it: get_mut() on an exclusively borrowed mutex
// returns the protected value (lock poisoning -- the Err case -- is not modelled: assumed Ok)
#[derive(Debug)]
pub struct PoisonError { }
pub struct Mutex<T> { pub inner: T }
impl<T> Mutex<T> {
    #[verifier::external_body]
    pub fn get_mut(&mut self) -> (r: Result<&mut T, PoisonError>)
        ensures r is Ok, *(r->Ok_0) == old(self).inner, final(self).inner == *final(r->Ok_0),
    { unimplemented!() }
}
pub trait MutexPlayerRecurse {
    fn advance(&mut self, it: u64, params: &RegretParams) -> f64;
}"""),
        dict(file="src/solve/vanilla.rs", path="struct MutexRegretInfoset",
             subst=[(r"Box<\[AtomicF64\]>", "Box<[f64]>", "TYPE-SUBST AtomicF64 cells seen through get_mut (the IntoFloatsMut impl for [AtomicF64] maps AtomicF64::get_mut) as f64")]),
        dict(file="src/solve/vanilla.rs", path="impl MutexPlayerRecurse for MutexRegretInfoset", members=[
            dict(path="fn advance", ret="r", obligation="C08.V.advance.order",
                 contract="""ensures
    final(self).strat@ == rm_spec(*params, old(self).cum_regret@), // @ob C08.V.advance.match_before_discount
    final(self).cum_regret@ == dcr_spec(*params, it, old(self).cum_regret@), // @ob C08.V.advance.discount_regrets
    final(self).cum_strat.inner@ == das_spec(*params, it, old(self).cum_strat.inner@), // @ob C08.V.advance.discount_average
    r == cr_spec(*params, it, final(self).cum_regret@), // @ob C02.V.advance.reports_bound"""),
        ]),
        dict(file="src/solve/external.rs", path="struct CachedInfoset", pub_fields=True),
        dict(file="src/solve/external.rs", path="impl ActiveInfo for CachedInfoset", members=[
            dict(path="fn advance", ret="r", obligation="C08.V.advance.order",
                 contract=ORDER % dict(f=".reg", it_avg="(if FIRST { (it - 1) as u64 } else { it })")
                 + "\n    final(self).cached == 0, // @ob C10.V.cached_infoset.advance_resets_draw"),
        ]),
    ],
)
