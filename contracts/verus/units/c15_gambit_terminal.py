UNIT = dict(
    id="c15_gambit_terminal",
    prelude=["floats.rs", "ideal.rs"],
    canary_use="broadcast use fl; broadcast use ideal; ax_obeys(); ax_rv_lits();",
    # the constant-sum analysis (second traversal of get_global_info): per-node steps and the offset
    # expression are under contract in unit c15_gambit_constant_sum (always run with this one)
    assumptions=[
        "BLOCK: the terminal arm of the Gambit reader's `impl IntoGameNode for JoinedNode` (src/gambit.rs); gambit-parser's terminal node and std's HashMap::get are local declarations with assumed contracts; the rest of the reader (parsing, the constant-sum analysis, the sorting of actions) is not covered",
        "idealised-real float mode for the payoff sum (operand order does not matter)",
    ],
    items=[
        dict(raw="""#[verifier::external_body]
#[verifier::reject_recursive_types(K)]
#[verifier::reject_recursive_types(V)]
pub struct HashMap<K, V> { _p: core::marker::PhantomData<(K, V)> }
impl<K, V> HashMap<K, V> {
    pub uninterp spec fn view(&self) -> Map<K, V>;
    #[verifier::external_body]
    pub fn get(&self, k: &K) -> (r: Option<&V>)
        ensures match r { Some(v) => self@.contains_key(*k) && *v == self@[*k], None => !self@.contains_key(*k) },
    { unimplemented!() }
}
#[verifier::external_body] pub struct Node<'a> { _p: core::marker::PhantomData<&'a u8> }
// gambit_parser::Terminal: the number of the outcome attached to the leaf
#[verifier::external_body] pub struct Terminal { }
impl Terminal {
    pub uninterp spec fn outcome_view(&self) -> u64;
    #[verifier::external_body]
    pub fn outcome(&self) -> (r: u64) ensures r == self.outcome_view() { unimplemented!() }
}
pub enum GameNode { Terminal(f64), Other }
"""),
        dict(file="src/gambit.rs", path="struct GlobalInfo", pub_fields=True),
        dict(file="src/gambit.rs", path="struct JoinedNode", pub_fields=True),
        dict(file="src/gambit.rs", path="impl IntoGameNode for JoinedNode<'_> / fn into_game_node", arm_re=r"Node::Terminal\(term\) => \{", arm_count=1,
             as_fn="into_game_node__terminal", generics="<'a>", rename_self=True,
             params="self_: JoinedNode<'a>, term: &Terminal",
             ret="out", ret_type="GameNode",
             obligation="C15.V.gambit.terminal_payoff", rules=[],
             entry="broadcast use fl; broadcast use ideal;\nproof { ax_obeys(); ax_rv_lits(); assume(self_.info.outcomes@.contains_key(term.outcome_view())); } // every outcome number of the file is in the table (validated while parsing)",
             contract="""ensures
    // the zero-sum payoff of a leaf: player one's payoffs collected along the path plus the leaf's own,
    // minus half the constant the two players' payoffs add up to
    out is Terminal && rv(out->Terminal_0) == rv(self_.cum_payoff) + rv(self_.info.outcomes@[term.outcome_view()]) - rv(self_.info.sum), // @ob C15.V.gambit.terminal_payoff"""),
    ],
)
