P = __file__.rsplit("/units/", 1)[0] + "/prelude/"
UNIT = dict(
    id="c08_recurse_player",
    prelude=["floats.rs", "ideal.rs"],
    canary_use="broadcast use fl; broadcast use ideal; ax_obeys(); ax_rv_lits();",
    expect=[("src/solve/vanilla.rs", r"trait Add \{\s*fn add\(self, other: f64\);\s*\}"),
            ("src/solve/vanilla.rs", r"&mut \*\*cum_regret,")],
    assumptions=[
        "idealised-real float mode (harmless reorderings of operands do not disturb the proof); the reach vector handed to the continuation is compared structurally in its untouched entry and by value in the multiplied entry",
        "TYPE-SUBST: `cum_regret: impl IntoIterator<Item = impl Add>` is instantiated at `&mut [f64]` (the single-threaded instance: recurse_single passes `&mut **cum_regret`), `.into_iter()` on it is `.iter_mut()`; the AtomicF64 instance (recurse_multi) is NOT covered",
        "R11: `rec: impl Fn(..)` named as a generic parameter; the continuation may be called on every child with every reach vector (its precondition is assumed), its results u_a are whatever it returns",
        "struct invariant actions.len() == strat.len() == cum_regret.len() assumed at entry (wf_game + RegretInfoset::new)",
    ],
    items=[
        dict(raw="use vstd::std_specs::iter::{zip_iter_snd, zip_iter_fst};"),
        dict(file="src/lib.rs", path="enum PlayerNum", attrs="#[derive(Copy, Clone)]"),
        dict(raw=open(P + "playernum.rs").read()),
        dict(file="src/lib.rs", path="enum Node"),
        dict(file="src/lib.rs", path="struct Chance", pub_fields=True),
        dict(file="src/lib.rs", path="struct Player", pub_fields=True),
        dict(raw="""pub trait Add {
    #[verifier::prophetic]
    spec fn added(self, other: f64) -> bool;
    fn add(self, other: f64)
        ensures self.added(other);
}
// counterfactual weight of the acting player's regrets: opponent reach x chance reach, negated for
// player two (payoffs are player one's)
pub open spec fn mult_spec(num: PlayerNum, p_chance: f64, p_player: [f64; 2]) -> real {
    match num { PlayerNum::One => rv(p_chance) * rv(p_player[1]), PlayerNum::Two => 0real - rv(p_player[0]) * rv(p_chance) }
}
// reach vector handed to the continuation of action a: only the acting player's entry is multiplied by sigma_a
pub open spec fn pnext_ok(num: PlayerNum, p_player: [f64; 2], prob: f64, p_next: [f64; 2]) -> bool {
    match num {
        PlayerNum::One => rv(p_next[0]) == rv(p_player[0]) * rv(prob) && p_next[1] == p_player[1],
        PlayerNum::Two => p_next[0] == p_player[0] && rv(p_next[1]) == rv(p_player[1]) * rv(prob),
    }
}
// the continuation was called on `node` with a reach vector in which ONLY the acting player's entry is
// multiplied by the action's probability, and returned u
pub open spec fn called_ok<F: Fn(&Node, [f64; 2]) -> f64>(rec: F, node: Node, num: PlayerNum, p_player: [f64; 2], prob: f64, u: f64) -> bool {
    exists|pn: [f64; 2]| pnext_ok(num, p_player, prob, pn) && #[trigger] rec.ensures((&node, pn), u)
}
pub open spec fn exp_one(strat: Seq<f64>, us: Seq<f64>, k: int) -> real decreases k {
    if k <= 0 { 0real } else { exp_one(strat, us, k - 1) + rv(strat[k - 1]) * rv(us[k - 1]) }
}
pub open spec fn exp_cf(strat: Seq<f64>, us: Seq<f64>, mult: real, k: int) -> real decreases k {
    if k <= 0 { 0real } else { exp_cf(strat, us, mult, k - 1) + rv(us[k - 1]) * mult * rv(strat[k - 1]) }
}
pub proof fn lemma_exp_prefix(st: Seq<f64>, a: Seq<f64>, b: Seq<f64>, m: real, k: int)
    requires 0 <= k <= a.len(), k <= b.len(), forall|i: int| 0 <= i < k ==> a[i] == b[i],
    ensures exp_one(st, a, k) == exp_one(st, b, k), exp_cf(st, a, m, k) == exp_cf(st, b, m, k),
    decreases k
{
    if k > 0 { lemma_exp_prefix(st, a, b, m, k - 1); }
}"""),
        dict(file="src/solve/vanilla.rs", path="impl Add for &mut f64",
             ghost_members="    #[verifier::prophetic]\n    open spec fn added(self, other: f64) -> bool { rv(*final(self)) == rv(*self) + rv(other) }",
             members=[dict(path="fn add", obligation="C08.V.recurse_player.add_item", entry="broadcast use fl; broadcast use ideal;\nproof { ax_obeys(); ax_rv_lits(); }")]),
        dict(file="src/solve/vanilla.rs", path="fn recurse_player", ret="out", obligation="C08.V.recurse_player.update", n_loops=1,
             rules=["R17", "R3m", "R3", "R1", "R8", "R9", "R10"],
             sig_subst=[(r"cum_regret: impl IntoIterator<Item = impl Add>,", "cum_regret: &mut [f64],", "TYPE-SUBST cum_regret := &mut [f64]"),
                        (r"fn recurse_player\(", "fn recurse_player<F: Fn(&Node, [f64; 2]) -> f64>(", "R11 named generic for `impl Fn`"),
                        (r"rec: impl Fn\(&Node, \[f64; 2\]\) -> f64,", "rec: F,", "R11 named generic for `impl Fn`")],
             body_subst=[(r"\.zip\(cum_regret\.into_iter\(\)\)", ".zip(cum_regret.iter_mut())", "TYPE-SUBST <&mut [f64]>::into_iter is iter_mut")],
             contract="""ensures
    final(cum_regret)@.len() == old(cum_regret)@.len(),
    exists|us: Seq<f64>| us.len() == player.actions@.len()
        // u_a is what the continuation returned for action a, called with the reach vector in which
        // ONLY the acting player's entry is multiplied by sigma_a
        && (forall|a: int| 0 <= a < us.len() ==> #[trigger] called_ok(rec, player.actions@[a], player.num, p_player, strat@[a], us[a]))
        // every action's cumulative regret receives u_a times the counterfactual weight
        && (forall|a: int| 0 <= a < us.len() ==> rv(#[trigger] final(cum_regret)@[a]) == rv(old(cum_regret)@[a]) + rv(us[a]) * mult_spec(player.num, p_chance, p_player))
        // returned: (sum_a sigma_a u_a, sum_a u_a mult sigma_a)
        && rv(out.0) == exp_one(strat@, us, us.len() as int)
        && rv(out.1) == exp_cf(strat@, us, mult_spec(player.num, p_chance, p_player), us.len() as int), // @ob C08.V.recurse_player.update""",
             entry="""broadcast use fl; broadcast use ideal;
proof {
    ax_obeys(); ax_rv_lits();
    assume(player.actions@.len() == strat@.len() && strat@.len() == cum_regret@.len());
    assume(forall|n: &Node, p: [f64; 2]| rec.requires((n, p)));
}
let ghost n = cum_regret@.len();
let ghost st = strat@;
let ghost c0 = cum_regret@;
let ghost acts = player.actions@;
let ghost mut us: Seq<f64> = Seq::empty();""",
             loops={0: dict(kind="for", binder="it",
                            before="proof {\n    assert((0real - rv(p_player[0])) * rv(p_chance) == 0real - rv(p_player[0]) * rv(p_chance)) by(nonlinear_arith);\n    assert(rv(p_chance) * (0real - rv(p_player[0])) == 0real - rv(p_player[0]) * rv(p_chance)) by(nonlinear_arith);\n    assert(rv(p_player[1]) * rv(p_chance) == rv(p_chance) * rv(p_player[1])) by(nonlinear_arith);\n    assert(rv(mult) == mult_spec(player.num, p_chance, p_player));\n}\nlet ghost ms = mult_spec(player.num, p_chance, p_player);",
                            head="""invariant
    it.snapshot@.remaining().len() == n, n == acts.len(), n == st.len(), n == c0.len(),
    0 <= it.index@ <= n, us.len() == it.index@,
    rv(mult) == ms, ms == mult_spec(player.num, p_chance, p_player),
    zip_iter_snd(it.snapshot@).remaining().len() == n,
    forall|i: int| 0 <= i < n ==> (it.snapshot@.remaining()[i]).1 == #[trigger] zip_iter_snd(it.snapshot@).remaining()[i],
    forall|i: int| 0 <= i < n ==> *((#[trigger] it.snapshot@.remaining()[i]).0).0 == acts[i]
        && *((it.snapshot@.remaining()[i]).0).1 == st[i] && *(it.snapshot@.remaining()[i]).1 == c0[i],
    forall|nd: &Node, p: [f64; 2]| rec.requires((nd, p)),
    forall|i: int| 0 <= i < it.index@ ==> #[trigger] called_ok(rec, acts[i], player.num, p_player, st[i], us[i]),
    forall|i: int| 0 <= i < it.index@ ==> rv(*final((#[trigger] it.snapshot@.remaining()[i]).1)) == rv(c0[i]) + rv(us[i]) * ms,
    rv(expected_one) == exp_one(st, us, it.index@ as int),
    rv(expected) == exp_cf(st, us, ms, it.index@ as int),
ensures
    forall|i: int| 0 <= i < n ==> rv(*final(#[trigger] zip_iter_snd(it.snapshot@).remaining()[i])) == rv(c0[i]) + rv(us[i]) * ms,""",
                            body_start="broadcast use fl; broadcast use ideal;\nproof { ax_obeys(); ax_rv_lits(); }\nlet ghost us0 = us;",
                            body_end="""proof {
    assert(rv(util_one) * rv(*prob) == rv(*prob) * rv(util_one)) by(nonlinear_arith);
    assert(rv(util) * rv(*prob) == rv(*prob) * rv(util)) by(nonlinear_arith);
    assert(rv(mult) * rv(util_one) == rv(util_one) * rv(mult)) by(nonlinear_arith);
    us = us0.push(util_one);
    assert(forall|i: int| 0 <= i < us0.len() ==> us[i] == us0[i]);
    lemma_exp_prefix(st, us0, us, ms, us0.len() as int);
    assert(pnext_ok(player.num, p_player, *prob, p_next));
    assert(rec.ensures((next, p_next), util_one));
    assert(called_ok(rec, *next, player.num, p_player, *prob, util_one));
    assert(rv(util) * rv(*prob) == rv(util_one) * ms * rv(*prob)) by(nonlinear_arith) requires rv(util) == rv(util_one) * ms;
}""",
                            after="""proof {
    let w = us;
    assert(w.len() == player.actions@.len() && acts == player.actions@ && st == strat@);
    assert(forall|a: int| 0 <= a < w.len() ==> #[trigger] called_ok(rec, player.actions@[a], player.num, p_player, strat@[a], w[a]));
    assert(forall|a: int| 0 <= a < w.len() ==> rv(#[trigger] cum_regret@[a]) == rv(c0[a]) + rv(w[a]) * ms);
}""")},
        ),
    ],
)
