UNIT = dict(
    id="c06_recurse_multi_cache",
    prelude=["floats.rs"],
    canary_use="broadcast use fl; ax_obeys();",
    assumptions=[
        "CachedPayoff::get_payoff is a pure lookup in a ghost map from nodes to payoffs (assumed trait contract; the HashMap<ByAddress<&Node>, f64> impl is std/by_address code and is not verified); the `()` impl is extracted and proved to be the empty map",
        "the miss branch of recurse_multi (the `match node` that traverses the subtree) is replaced by an uninterpreted call: its three arms are under contract in c08_chance_reach / c08_recurse_player / c08_update_cum_strat",
        "infoset tables (Mutex / atomics) are opaque; that a hit performs NO update is expressed only through the result being the cached payoff without the miss branch being reachable (the miss stub has precondition `no hit`)",
    ],
    items=[
        dict(file="src/lib.rs", path="enum PlayerNum", attrs="#[derive(Copy, Clone)]"),
        dict(file="src/lib.rs", path="enum Node"),
        dict(file="src/lib.rs", path="struct Chance", pub_fields=True),
        dict(file="src/lib.rs", path="struct Player", pub_fields=True),
        dict(raw="""#[verifier::external_body] pub struct ChanceTables { }
#[verifier::external_body] pub struct PlayerTables { }
pub trait CachedPayoff {
    spec fn spec_get(&self, node: Node) -> Option<f64>;
    fn get_payoff(&self, node: &Node) -> (r: Option<f64>)
        ensures r == self.spec_get(*node);
}
pub uninterp spec fn miss_spec(node: Node, p_chance: f64, p_player: [f64; 2]) -> f64;
// the traversal of the subtree below `node`; only legal when the cache has nothing for `node`
#[verifier::external_body]
pub fn __miss<C: CachedPayoff>(node: &Node, chance_infosets: &ChanceTables, player_infosets: &PlayerTables, p_chance: f64, p_player: [f64; 2], cached: &C) -> (r: f64)
    requires cached.spec_get(*node) is None,
    ensures r == miss_spec(*node, p_chance, p_player),
{ unimplemented!() }
"""),
        dict(file="src/solve/data.rs", path="impl CachedPayoff for ()",
             ghost_members="    open spec fn spec_get(&self, node: Node) -> Option<f64> { None }",
             members=[dict(path="fn get_payoff", ret="r", vis="", obligation="C06.V.cached_payoff.unit_is_empty",
                           sig_subst=[(r"_: &Node", "_n: &Node", "R14 unnamed parameter `_` named")])]),
        dict(file="src/solve/vanilla.rs", path="fn recurse_multi", ret="r",
             obligation="C06.V.recurse_multi.cache_hit",
             sig_subst=[(r"&\[impl ChanceRecurse\]", "&ChanceTables", "TYPE-SUBST opaque chance tables"),
                        (r"\[&\[MutexRegretInfoset\]; 2\]", "&PlayerTables", "TYPE-SUBST opaque player tables"),
                        (r"&impl CachedPayoff", "&C", "R11 impl Trait -> named generic"),
                        (r"fn recurse_multi\(", "fn recurse_multi<C: CachedPayoff>(", "R11 impl Trait -> named generic")],
             body_subst=[(r"(?s)else \{\s*match node \{.*\}\s*\}\s*$",
                          "else { __miss(node, chance_infosets, player_infosets, p_chance, p_player, cached) }\n",
                          "R6 miss branch (subtree traversal) abstracted")],
             rules=[],
             contract="""ensures
    // a node whose payoff was already computed by a frontier worker is NOT traversed again: the
    // cached payoff is returned, whatever kind of node it is (frontiers contain chance outcomes and
    // terminals as well as decision nodes)
    cached.spec_get(*node) is Some ==> r == cached.spec_get(*node)->0, // @ob C06.V.recurse_multi.cache_hit
    cached.spec_get(*node) is None ==> r == miss_spec(*node, p_chance, p_player), // @ob C06.V.recurse_multi.miss_traverses""",
             entry="broadcast use fl;\nproof { ax_obeys(); }"),
    ],
)
