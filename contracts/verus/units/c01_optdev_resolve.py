P = __file__.rsplit("/units/", 1)[0] + "/prelude/"
C0 = "vctx_seq(PLAYER_ONE, %s, chance_info, strat_info)"
UNIT = dict(
    id="c01_optdev_resolve",
    prelude=["floats.rs", "ideal.rs", "std_ext.rs", "infoset_traits.rs", "iter_ext.rs"],
    canary_use="broadcast use fl; broadcast use ideal; ax_obeys(); ax_rv_lits(); ax_fn_items();",
    expect=[("src/lib.rs", r"trait PlayerInfoset \{\s*fn num_actions\(&self\) -> usize;\s*fn prev_infoset\(&self\) -> Option<usize>;\s*\}")],
    assumptions=[
        "idealised-real float mode",
        "BLOCK: this unit is ONE iteration of the bottom-up resolution loop of optimal_deviations (body of `while let Some(info) = info_queue.pop()`), with the loop's free variables as parameters; it is a STEP contract: that the queue discipline resolves every infoset after all later infosets of the same player (global order argument over the perfect-recall forest) is NOT proved, only that each step decrements the predecessor's pending count by the number of resolved nodes, enqueues it exactly when the count reaches zero, and stores max_a sum_n reach(n) val(child_a(n)) / sum_n reach(n)",
        "R6: `let total_reach: f64 = nodes.iter().map(|(_, p)| p).sum();` abstracted to an assumed contract (sum of recorded reaches)",
        "R7: `payoffs.into_iter().reduce(f64::max)` -> `__reduce(..)` with the std-documented fold contract; fn-item axiom ax_fn_items",
        "next_infoset_search bound to the contract PROVED for it by unit c01_next_infoset_search (cited)",
        "std facts as axioms: mem::take leaves Default (empty Vec); `&mut usize == &mut usize` compares pointees",
        "preconditions (wf of the recorded nodes, predecessor differs from the infoset, pending count >= number of nodes) are what the first pass and from_root are assumed to establish",
    ],
    items=[
        dict(raw="""use std::mem;
use vstd::std_specs::iter::{zip_iter_snd, zip_iter_fst};
// std::mem::take: "Replaces dest with the default value of T, returning the previous dest value"
pub uninterp spec fn spec_default<T>() -> T;
pub assume_specification<T: Default> [std::mem::take] (x: &mut T) -> (r: T) ensures r == *old(x), *final(x) == spec_default::<T>();
// core: `impl PartialEq<&mut B> for &mut A` compares the pointees
pub axiom fn ax_mutref_eq()
    ensures <&mut usize as PartialEqSpec<&mut usize>>::obeys_eq_spec(),
        forall|a: &mut usize, b: &mut usize| #[trigger] a.eq_spec(&b) == (*a == *b);
// Vec::default() is the empty vector
pub axiom fn ax_vec_default<T>() ensures spec_default::<Vec<T>>()@.len() == 0;"""),
        dict(file="src/lib.rs", path="enum PlayerNum", attrs="#[derive(Copy, Clone)]"),
        dict(raw=open(P + "playernum.rs").read()),
        dict(file="src/lib.rs", path="enum Node"),
        dict(file="src/lib.rs", path="struct Chance", pub_fields=True),
        dict(file="src/lib.rs", path="struct Player", pub_fields=True),
        dict(file="src/regret.rs", path="struct DeviationInfo", pub_fields=True),
        dict(raw=open(P + "tree_common.rs").read()),
        dict(raw=open(P + "val_spec.rs").read()),
        dict(raw=open(P + "optdev_spec.rs").read()),
        dict(raw="""// contract proved for the real next_infoset_search by unit c01_next_infoset_search
#[verifier::external_body]
pub fn next_infoset_search<'a, const PLAYER_ONE: bool>(
    start: &'a Node,
    search_queue: &mut Vec<(&'a Node, f64)>,
    infosets: &[DeviationInfo],
    chance_info: &[impl ChanceInfoset],
    strat_info: &[impl AsRef<[f64]>],
) -> (out: f64)
    requires
        old(search_queue)@.len() == 0,
        vwf(*start, vctx_of(PLAYER_ONE, infosets, chance_info, strat_info)),
    ensures
        final(search_queue)@.len() == 0,
        rv(out) == val(*start, vctx_of(PLAYER_ONE, infosets, chance_info, strat_info)),
{ unimplemented!() }"""),
        dict(file="src/regret.rs", path="fn optimal_deviations", loop=4, header_re=r"^while let Some\(info\) = info_queue\.pop\(\)",
             as_fn="optimal_deviations__resolve_step",
             generics="<'a, const PLAYER_ONE: bool, C: ChanceInfoset, PI: PlayerInfoset, S: AsRef<[f64]>>",
             params="info: usize, mut infosets: Box<[DeviationInfo<'a>]>, mut info_queue: Vec<usize>, mut search_queue: Vec<(&'a Node, f64)>, player_info: &[PI], chance_info: &[C], strat_info: &[S]",
             ret="out", ret_type="(Box<[DeviationInfo<'a>]>, Vec<usize>, Vec<(&'a Node, f64)>)",
             exit="""proof {
    lemma_rfold_max(pf, nodes0, c0, na);
    assert(pf.take(na) =~= pf);
    assert(rv(rfold(f64::max, pf)) == step_max(nodes0, c0, na));
}
(infosets, info_queue, search_queue)""",
             obligation="C01.V.optimal_deviations.resolve_step",
             rules=["R2", "R3", "R1", "R7", "R9", "R10"],
             table=[(r"^let total_reach: f64 = nodes\.iter\(\)\.map\(\|\(_, p\)\| p\)\.sum\(\);$", ("abstract", "let total_reach: f64 = __abs_total_reach(&nodes);"))],
             contract="""requires
    info < infosets@.len(), infosets@.len() == player_info@.len(),
    search_queue@.len() == 0,
    player_info@[info as int].num_actions_view() >= 1,
    match player_info@[info as int].prev_infoset_view() {
        Some(p) => p < infosets@.len() && p != info && infosets@[p as int].future_nodes >= infosets@[info as int].prob_nodes@.len(),
        None => true,
    },
    forall|j: int| 0 <= j < infosets@[info as int].prob_nodes@.len() ==>
        (#[trigger] infosets@[info as int].prob_nodes@[j]).0.actions@.len() == player_info@[info as int].num_actions_view()
        && forall|a: int| 0 <= a < player_info@[info as int].num_actions_view() ==>
            vwf(#[trigger] infosets@[info as int].prob_nodes@[j].0.actions@[a], """ + C0 % "infosets@" + """),
ensures
    out.0@.len() == infosets@.len(), out.2@.len() == 0,
    // the infoset is resolved: its nodes are consumed, its own pending count is untouched ...
    out.0@[info as int].prob_nodes@.len() == 0, // @ob C01.V.optimal_deviations.nodes_consumed
    out.0@[info as int].future_nodes == infosets@[info as int].future_nodes,
    // ... and its value is the best action's reach-weighted continuation value, normalised by total reach
    reach_sum(infosets@[info as int].prob_nodes@, infosets@[info as int].prob_nodes@.len() as int) != 0real ==>
        rv(out.0@[info as int].max_utility) == step_max(infosets@[info as int].prob_nodes@, """ + C0 % "infosets@" + """, player_info@[info as int].num_actions_view() as int)
            / reach_sum(infosets@[info as int].prob_nodes@, infosets@[info as int].prob_nodes@.len() as int), // @ob C01.V.optimal_deviations.best_action_value
    // bookkeeping of the predecessor infoset: pending count drops by the number of resolved nodes and
    // the predecessor is enqueued exactly when nothing is pending any more
    match player_info@[info as int].prev_infoset_view() {
        Some(p) => out.0@[p as int].future_nodes == infosets@[p as int].future_nodes - infosets@[info as int].prob_nodes@.len()
            && out.0@[p as int].max_utility == infosets@[p as int].max_utility
            && out.0@[p as int].prob_nodes == infosets@[p as int].prob_nodes
            && out.1@ == (if out.0@[p as int].future_nodes == 0 { info_queue@.push(p) } else { info_queue@ })
            && forall|j: int| 0 <= j < infosets@.len() && j != info && j != p ==> #[trigger] out.0@[j] == infosets@[j],
        None => out.1@ == info_queue@
            && forall|j: int| 0 <= j < infosets@.len() && j != info ==> #[trigger] out.0@[j] == infosets@[j],
    }, // @ob C01.V.optimal_deviations.pending_count""",
             entry="""broadcast use fl; broadcast use ideal;
proof { ax_obeys(); ax_rv_lits(); ax_fn_items(); ax_vec_default::<(&'a Player, f64)>(); ax_mutref_eq(); }
let ghost inf0 = infosets@;
let ghost nodes0 = infosets@[info as int].prob_nodes@;
let ghost c0 = """ + C0 % "infosets@" + """;
let ghost na = player_info@[info as int].num_actions_view() as int;""",
             loops={
                 0: dict(kind="for", binder="it5",
                         before="""proof {
    assert(nodes@ == nodes0);
    assert(infosets@.len() == inf0.len());
    assert(forall|j: int| 0 <= j < inf0.len() ==> infosets@[j].max_utility == inf0[j].max_utility);
    assert(""" + C0 % "infosets@" + """ == c0) by {
        assert(Seq::new(infosets@.len(), |i: int| infosets@[i].max_utility) =~= Seq::new(inf0.len(), |i: int| inf0[i].max_utility));
    }
    assert(forall|a: int| 0 <= a < na ==> step_payoff(nodes0, a, c0, 0) == 0real);
}""",
                         head="""invariant
    0 <= it5.index@ <= nodes0.len(),
    it5.snapshot@.remaining() == nodes0,
    payoffs@.len() == na, na >= 1,
    forall|a: int| 0 <= a < na ==> rv(#[trigger] payoffs@[a]) == step_payoff(nodes0, a, c0, it5.index@ as int),
    search_queue@.len() == 0,
    c0 == """ + C0 % "infosets@" + """,
    forall|j: int| 0 <= j < nodes0.len() ==> (#[trigger] nodes0[j]).0.actions@.len() == na
        && forall|a: int| 0 <= a < na ==> vwf(#[trigger] nodes0[j].0.actions@[a], c0),""",
                         body_start="""broadcast use fl; broadcast use ideal;
proof { ax_obeys(); ax_rv_lits(); }
let ghost k5 = it5.index@ as int;
proof { assert((player, prob) == nodes0[k5]); }""",
                         after="let ghost pf = payoffs@;\nlet ghost inf1 = infosets@;"),
                 1: dict(kind="for", binder="it6",
                         before="let ghost p0 = payoffs@;",
                         head="""invariant
    it6.snapshot@.remaining().len() == na, 0 <= it6.index@ <= na,
    zip_iter_snd(it6.snapshot@).remaining().len() == na,
    forall|i: int| 0 <= i < na ==> (it6.snapshot@.remaining()[i]).1 == #[trigger] zip_iter_snd(it6.snapshot@).remaining()[i],
    forall|i: int| 0 <= i < na ==> *(#[trigger] it6.snapshot@.remaining()[i]).0 == player.actions@[i] && *(it6.snapshot@.remaining()[i]).1 == p0[i],
    forall|i: int| 0 <= i < it6.index@ ==> rv(*final((#[trigger] it6.snapshot@.remaining()[i]).1)) == rv(p0[i]) + val(player.actions@[i], c0) * rv(prob),
    search_queue@.len() == 0,
    c0 == """ + C0 % "infosets@" + """,
    forall|a: int| 0 <= a < na ==> vwf(#[trigger] player.actions@[a], c0),
ensures
    forall|i: int| 0 <= i < na ==> rv(*final(#[trigger] zip_iter_snd(it6.snapshot@).remaining()[i])) == rv(p0[i]) + val(player.actions@[i], c0) * rv(prob),""",
                         body_start="broadcast use fl; broadcast use ideal;\nproof { ax_obeys(); ax_rv_lits(); }",
                         after="""proof {
    assert forall|a: int| 0 <= a < na implies rv(#[trigger] payoffs@[a]) == step_payoff(nodes0, a, c0, k5 + 1) by {
        assert(step_payoff(nodes0, a, c0, k5 + 1) == step_payoff(nodes0, a, c0, k5) + val(nodes0[k5].0.actions@[a], c0) * rv(nodes0[k5].1));
    }
}"""),
             },
        ),
    ],
)
