UNIT = dict(
    id="c18_truncate_block",
    prelude=["floats.rs"],
    canary_use="broadcast use fl; ax_obeys(); ax_refref_cmp();",
    assumptions=[
        "uninterpreted float mode: + - * / < are deterministic functions of their operands, nothing else assumed",
        "R6: the statement `let total: f64 = strat.iter().filter(|p| p > &&thresh).sum();` is abstracted (Filter/sum chains are outside this Verus); its value T is arbitrary here, but the predicate handed to `.filter` is extracted as its own unit and must be `p > thresh`. That T is the sum of the entries above the threshold is checked only at the bounded level by Kani harness c18_truncate_valid/zeroed",
        "BLOCK: this unit covers the body of the per-infoset loop of truncate; that the loop visits each infoset's block exactly once is the SplitsByMut::next partition contract (unit split_by) plus the zip over the two players (read, not proved)",
    ],
    items=[
        dict(raw="""#[verifier::external_body]
pub fn __abs_total(strat: &[f64], thresh: f64) -> (r: f64) { unimplemented!() }"""),
        dict(file="src/lib.rs", path="impl Strategies / fn truncate", loop=1, n_loops=3,
             header_re=r"^for strat in split_by_mut\(",
             as_fn="truncate__per_infoset", params="strat: &mut [f64], thresh: f64",
             obligation="C18.V.truncate.rescale",
             table=[
                 (r"^let total: f64 = strat\.iter\(\)\.filter\(\|p\| [^|;]*\)\.sum\(\);$", ("abstract", "let total: f64 = __abs_total(strat, thresh);")),
                 (r"^if total > 0\.0 \{", "keep"),
             ],
             contract="""ensures
    final(strat)@.len() == old(strat)@.len(),
    // with T the block's divisor: either nothing changes (no survivor), or every entry above the
    // threshold is divided by the ONE common divisor T and every other entry becomes exactly 0.0
    exists|t: f64| (!fgt(t, 0.0f64) && final(strat)@ == old(strat)@) || (fgt(t, 0.0f64) &&
        forall|i: int| 0 <= i < old(strat)@.len() ==> #[trigger] final(strat)@[i] ==
            (if fgt(old(strat)@[i], thresh) { fdiv(old(strat)@[i], t) } else { 0.0f64 })), // @ob C18.V.truncate.rescale""",
             entry="broadcast use fl;\nproof { ax_obeys(); }\nlet ghost s0 = strat@;",
             exit="""proof {
    let t = total;
    if fgt(t, 0.0f64) {
        assert forall|i: int| 0 <= i < s0.len() implies #[trigger] strat@[i] ==
            (if fgt(s0[i], thresh) { fdiv(s0[i], t) } else { 0.0f64 }) by {}
    } else {
        assert(strat@ == s0);
    }
}""",
             loops={0: dict(kind="for", binder="it",
                            head="""invariant
    it.snapshot@.remaining().len() == s0.len(),
    0 <= it.index@ <= s0.len(),
    forall|i: int| 0 <= i < s0.len() ==> *(#[trigger] it.snapshot@.remaining()[i]) == s0[i],
    forall|i: int| 0 <= i < it.index@ ==> *final(#[trigger] it.snapshot@.remaining()[i]) ==
        (if fgt(s0[i], thresh) { fdiv(s0[i], total) } else { 0.0f64 }),
ensures
    forall|i: int| 0 <= i < s0.len() ==> *final(#[trigger] it.snapshot@.remaining()[i]) ==
        (if fgt(s0[i], thresh) { fdiv(s0[i], total) } else { 0.0f64 }),""",
                            body_start="broadcast use fl;\nproof { ax_obeys(); }")},
        ),
        # the predicate that selects what enters the total (expression closure handed to `.filter`): it
        # must be the SAME test the rewrite applies, `p > thresh`
        dict(raw="""// core: PartialOrd for &A delegates to A (twice for `&&f64 > &&f64`)
pub axiom fn ax_refref_cmp()
    ensures <&&f64 as PartialOrdSpec<&&f64>>::obeys_partial_cmp_spec(),
        forall|a: &&f64, b: &&f64| #[trigger] <&&f64 as PartialOrdSpec<&&f64>>::partial_cmp_spec(&a, &b) == fcmp(**a, **b);
"""),
        dict(file="src/lib.rs", path="impl Strategies / fn truncate", closure=0, expr_closure=True,
             header_re=r"^\|p\|$", as_fn="truncate__survivor_predicate",
             params="p: &&f64, thresh: f64", ret="out", ret_type="bool",
             obligation="C18.V.truncate.total_over_survivors", rules=[],
             entry="broadcast use fl;\nproof { ax_obeys(); ax_refref_cmp(); }",
             contract="""ensures
    // the total that survivors are divided by is taken over exactly the entries that survive
    out == fgt(**p, thresh), // @ob C18.V.truncate.total_over_survivors"""),
    ],
)
