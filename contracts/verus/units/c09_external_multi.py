import importlib.util, os
_s = importlib.util.spec_from_file_location("c09e", os.path.join(os.path.dirname(__file__), "c09_external_single.py"))
_m = importlib.util.module_from_spec(_s); _s.loader.exec_module(_m)
UNIT = dict(
    id="c09_external_multi",
    prelude=["floats.rs", "slice_state_ext.rs"],
    canary_use="broadcast use fl; ax_obeys();",
    assumptions=_m.ASSUME + [
        "BLOCK: the unit is the body of the closure passed to rayon's ThreadPool::scope in solve_external_multi (workspace creation + the iteration loop); reg_one/reg_two are captured by mutable reference and start at +inf (set by the enclosing function: read)",
    ],
    items=[
        dict(raw="""#[verifier::external_body] pub struct RegretParams { }
"""),
        dict(file="src/solve/external.rs", path="fn solve_external_multi", closure=0, header_re=r"^\|_\|$",
             as_fn="solve_external_multi__scope_body",
             params="max_iter: u64, max_reg: f64, __reg_one: &mut f64, __reg_two: &mut f64, params: &RegretParams",
             obligation="C09.V.first_below", forbidden=["max_reg"],
             table=[
                 (r"^let mut work = Workspace::with_capacity\(target\.get\(\)\);$", ("abstract", "let mut reg_one = *__reg_one; let mut reg_two = *__reg_two;")),
             ],
             loop_tables={0: [
                 (r"^reg_one = single_player_iter::<true>\( root, &mut chance_infosets, \[&mut player_one, &mut player_two\], target, &mut work, it, params, \);$",
                  ("abstract", "reg_one = __abs_pass_one(&mut __st, it);")),
                 (r"^reg_two = single_player_iter::<false>\( root, &mut chance_infosets, \[&mut player_two, &mut player_one\], target, &mut work, it, params, \);$",
                  ("abstract", "reg_two = __abs_pass_two(&mut __st, it);")),
                 (r"^chance_infosets \.iter_mut\(\) \.for_each\(", ("abstract", ""), "optional"),
             ]},
             contract="""requires
    *old(__reg_one) == finf() && *old(__reg_two) == finf(),
ensures
    exists|k: nat| #![trigger state_after(__s0(), k)] k <= max_iter
        && (forall|j: nat| 1 <= j < k ==> !below_at(__s0(), j, max_reg))
        && (k < max_iter ==> k >= 1 && below_at(__s0(), k, max_reg))
        && (k == 0 ==> *final(__reg_one) == finf() && *final(__reg_two) == finf())
        && (k > 0 ==> (*final(__reg_one), *final(__reg_two)) == regs_at(__s0(), k)), // @ob C09.V.first_below.returns_state_k""",
             entry=_m.ENTRY,
             exit="*__reg_one = reg_one; *__reg_two = reg_two;\nproof { assert(__st.g@ == state_after(__s0(), k)); }",
             loops={0: dict(kind="for", binder="r", head=_m.HEAD,
                            body_start="broadcast use fl;\nproof { ax_obeys(); k = k + 1; }")},
        ),
    ],
)
