STUBS = """#[verifier::external_body] pub struct ChanceTables { }
#[verifier::external_body] pub struct PlayerTables { }
#[verifier::external_body] pub struct Node { }
// by_address::ByAddress: a key that compares / hashes the ADDRESS of what it wraps
pub struct ByAddress<T>(pub T);
pub struct Unit;
// the traversal below a node (vanilla::recurse_multi / external::recurse_regret), as an uninterpreted
// function of everything it is given: node, tables, reach values, cache (their insides: C08 units, the
// cache contract: c06_recurse_multi_cache / c08_recurse_regret_dispatch)
pub uninterp spec fn rm_spec(node: &Node, ch: &ChanceTables, pl: [&PlayerTables; 2], p_chance: f64, p_player: [f64; 2]) -> f64;
#[verifier::external_body]
pub fn recurse_multi(node: &Node, chance_infosets: &ChanceTables, player_infosets: [&PlayerTables; 2], p_chance: f64, p_player: [f64; 2], cached: &Unit) -> (r: f64)
    ensures r == rm_spec(node, chance_infosets, player_infosets, p_chance, p_player),
{ unimplemented!() }
pub uninterp spec fn rr_spec(first: bool, node: &Node, ch: &ChanceTables, active: &PlayerTables, external: &PlayerTables) -> f64;
#[verifier::external_body]
pub fn recurse_regret<const FIRST: bool>(node: &Node, chance_infosets: &ChanceTables, active_player_infosets: &PlayerTables, external_player_infosets: &PlayerTables, cached: &Unit) -> (r: f64)
    ensures r == rr_spec(FIRST, node, chance_infosets, active_player_infosets, external_player_infosets),
{ unimplemented!() }
"""
UNIT = dict(
    id="c06_worker_task",
    prelude=[],
    canary_use="",
    assumptions=[
        "BLOCK: the units are the bodies of the closures handed to `.map` in `payoffs.par_extend(queue.par_drain(..).map(..))` of vanilla::solve_generic_multi and external::single_player_iter: what ONE worker task does with ONE frontier entry; the rayon chain around them is not part of this unit (assumed: prelude/workspace.rs)",
        "TYPE-SUBST: the infoset tables are opaque types; the empty cache `()` is written as a unit struct (`&()` -> `&Unit`); recurse_multi / recurse_regret are uninterpreted functions of everything they are given, with the cache argument FIXED to the empty cache by the stub's type",
    ],
    items=[
        dict(raw=STUBS),
        dict(file="src/solve/vanilla.rs", path="fn solve_generic_multi", closure=0,
             header_re=r"^\|\((\w+), (\w+), (\w+)\)\|$",
             as_fn="solve_generic_multi__worker_task", generics="<'a>",
             params="$1: &'a Node, $2: f64, $3: [f64; 2], chance_infosets: ChanceTables, player_one: &PlayerTables, player_two: &PlayerTables",
             ret="out", ret_type="(ByAddress<&'a Node>, f64)",
             obligation="C06.V.worker_task.own_entry", rules=[],
             body_subst=[(r"&\(\)", "&Unit", "TYPE-SUBST the empty cache `()` as a unit struct")],
             contract="""ensures
    // a worker evaluates ITS frontier entry: the traversal below that entry's node with that entry's
    // reach values, the shared tables in player order and an EMPTY cache, and files the payoff under
    // that node's address
    out.0 == ByAddress($1) && out.1 == rm_spec($1, &chance_infosets, [player_one, player_two], $2, $3), // @ob C06.V.worker_task.own_entry"""),
        dict(file="src/solve/external.rs", path="fn single_player_iter", closure=0,
             header_re=r"^\|(\w+)\|$",
             as_fn="single_player_iter__worker_task", generics="<'a, const FIRST: bool>",
             params="$1: &'a Node, chance_infosets: &ChanceTables, active_player_infosets: &PlayerTables, external_player_infosets: &PlayerTables",
             ret="out", ret_type="(ByAddress<&'a Node>, f64)",
             obligation="C07.V.worker_task.own_entry", rules=[],
             body_subst=[(r"&\(\)", "&Unit", "TYPE-SUBST the empty cache `()` as a unit struct")],
             contract="""ensures
    // the same for a pass of the external-sampled solver: same FIRST, the updating player's table as the
    // active one, the sampled player's as the external one
    out.0 == ByAddress($1) && out.1 == rr_spec(FIRST, $1, chance_infosets, active_player_infosets, external_player_infosets), // @ob C07.V.worker_task.own_entry"""),
    ],
)
