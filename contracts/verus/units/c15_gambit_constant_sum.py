STUBS = """#[verifier::external_body]
#[verifier::reject_recursive_types(K)]
#[verifier::reject_recursive_types(V)]
pub struct HashMap<K, V> { _p: core::marker::PhantomData<(K, V)> }
impl<K, V> HashMap<K, V> {
    pub uninterp spec fn view(&self) -> Map<K, V>;
    #[verifier::external_body]
    pub fn get(&self, k: &K) -> (r: Option<&V>)
        ensures match r { Some(v) => self@.contains_key(*k) && *v == self@[*k], None => !self@.contains_key(*k) },
    { unimplemented!() }
}
// gambit_parser::Terminal: the number of the outcome attached to the leaf
#[verifier::external_body] pub struct Terminal { }
impl Terminal {
    pub uninterp spec fn outcome_view(&self) -> u64;
    #[verifier::external_body]
    pub fn outcome(&self) -> (r: u64) ensures r == self.outcome_view() { unimplemented!() }
}
// gambit_parser's chance / player nodes as far as the payoff look-up uses them
// payoffs written inline at a node (gambit-parser): whether a node carries them is NOT determined by its
// outcome number (an outcome may be defined at one node and referenced by number at others): unspecified
#[verifier::external_body] pub struct Payoffs { }
#[verifier::external_body] pub struct GChance { }
impl GChance {
    #[verifier::external_body] pub fn outcome_payoffs(&self) -> (r: Option<&Payoffs>) { unimplemented!() }
    pub uninterp spec fn outcome_view(&self) -> u64;
    #[verifier::external_body]
    pub fn outcome(&self) -> (r: u64) ensures r == self.outcome_view() { unimplemented!() }
}
#[verifier::external_body] pub struct GPlayer { }
impl GPlayer {
    #[verifier::external_body] pub fn outcome_payoffs(&self) -> (r: Option<&Payoffs>) { unimplemented!() }
    pub uninterp spec fn outcome_view(&self) -> u64;
    #[verifier::external_body]
    pub fn outcome(&self) -> (r: u64) ensures r == self.outcome_view() { unimplemented!() }
}
#[verifier::external_body] pub struct Node<'a> { _p: core::marker::PhantomData<&'a u8> }
// gambit_parser's action labels and rational probabilities (opaque; their text / value are not part of this unit)
#[verifier::external_body] pub struct Label { }
impl Label { #[verifier::external_body] pub fn to_string(&self) -> (r: String) { unimplemented!() } }
#[verifier::external_body] pub struct Rational { }
impl Rational {
    pub uninterp spec fn val(&self) -> Option<f64>;
    #[verifier::external_body] pub fn to_f64(&self) -> (r: Option<f64>) ensures r == self.val() { unimplemented!() }
}
// `queue.extend(NODE.actions().iter().map(|(.., next)| (next, cum_pays)))`: every child of the node is queued
// with the running payoffs as they are at this point (std chain over gambit-parser's child list)
#[verifier::external_body]
pub fn __queue_children<'a, N>(queue: &mut Vec<(&'a Node<'a>, [f64; 2])>, node: &N, cum_pays: [f64; 2])
    ensures final(queue)@.len() >= old(queue)@.len(), final(queue)@.take(old(queue)@.len() as int) == old(queue)@,
        forall|k: int| old(queue)@.len() <= k < final(queue)@.len() ==> (#[trigger] final(queue)@[k]).1 == cum_pays,
{ unimplemented!() }
pub open spec fn carried(c0: [f64; 2], outcome: u64, table: Map<u64, [f64; 2]>, c: [f64; 2]) -> bool {
    if outcome == 0 { rv(c[0]) == rv(c0[0]) && rv(c[1]) == rv(c0[1]) }
    else { rv(c[0]) == rv(c0[0]) + rv(table[outcome][0]) && rv(c[1]) == rv(c0[1]) + rv(table[outcome][1]) }
}
// R18: panic!(..) -- never returns
#[verifier::external_body]
pub fn __panic() ensures false { panic!() }
// `for (cum, out) in cum_pays.iter_mut().zip(PAYS) { *cum += *out }`: both players' payoffs of the outcome
// are added to the running payoffs (zip of two 2-element sequences, std; idealised reals)
#[verifier::external_body]
pub fn __add_outcome(cum_pays: &mut [f64; 2], pays: &[f64; 2])
    ensures rv(final(cum_pays)[0]) == rv(old(cum_pays)[0]) + rv(pays[0]), rv(final(cum_pays)[1]) == rv(old(cum_pays)[1]) + rv(pays[1]),
{ unimplemented!() }
pub open spec fn rmin(a: real, b: real) -> real { if a <= b { a } else { b } }
pub open spec fn rmax(a: real, b: real) -> real { if a >= b { a } else { b } }
"""
UNIT = dict(
    id="c15_gambit_constant_sum",
    prelude=["floats.rs", "ideal.rs"],
    canary_use="broadcast use fl; broadcast use ideal; ax_obeys(); ax_rv_lits();",
    assumptions=[
        "BLOCK: the terminal arm of the constant-sum analysis (second traversal) of gambit::get_global_info; gambit-parser's terminal node and std's HashMap::get are local declarations with assumed contracts; every outcome number of the file is in the table built by the first traversal (assumed: `.unwrap()` does not fail)",
        "the accumulation loop over the zip of the running payoffs and the outcome's payoffs is bound to its std meaning (element-wise +=)",
        "idealised-real float mode; R18: panic!(..) -> a declared function that never returns",
    ],
    items=[
        dict(raw=STUBS),
        dict(file="src/gambit.rs", path="fn get_global_info", arm_re=r"Node::Terminal\(terminal\) => \{", arm_index=1, arm_count=2,
             as_fn="get_global_info__leaf_sum",
             params="terminal: &Terminal, mut cum_pays: [f64; 2], outcomes: &HashMap<u64, [f64; 2]>, mut min: f64, mut max: f64, mut one_min: f64, mut one_max: f64",
             ret="out", ret_type="(f64, f64, f64, f64)", exit="(min, max, one_min, one_max)",
             obligation="C15.V.gambit.constant_sum_leaf", rules=["R18", "R3"],
             body_subst=[(r"for \(cum, out\) in cum_pays\s*\.iter_mut\(\)\s*\.zip\((outcomes\.get\(&terminal\.outcome\(\)\)\.unwrap\(\))\)\s*\{\s*\*cum (?:\+= \*out|= \*cum \+ \*out);?\s*\}",
                          r"__add_outcome(&mut cum_pays, \1);", "R5 element-wise accumulation over a zip of two pairs")],
             entry="""broadcast use fl; broadcast use ideal;
proof { ax_obeys(); ax_rv_lits(); assume(outcomes@.contains_key(terminal.outcome_view())); } // every outcome number of the file is in the table (first traversal)
let ghost c0 = cum_pays; let ghost min0 = min; let ghost max0 = max; let ghost omin0 = one_min; let ghost omax0 = one_max;""",
             contract="""ensures
    // at a leaf the analysed quantity is HALF the sum of the two players' payoffs collected along the
    // path (interior outcomes plus the leaf's own); the running minimum / maximum of it, and of player
    // one's payoff, are updated with this leaf
    ({
        let one = rv(cum_pays[0]) + rv(outcomes@[terminal.outcome_view()][0]);
        let two = rv(cum_pays[1]) + rv(outcomes@[terminal.outcome_view()][1]);
        rv(out.0) == rmin(rv(min), (one + two) / 2real) && rv(out.1) == rmax(rv(max), (one + two) / 2real)
        && rv(out.2) == rmin(rv(one_min), one) && rv(out.3) == rmax(rv(one_max), one)
    }), // @ob C15.V.gambit.constant_sum_leaf"""),
        dict(file="src/gambit.rs", path="struct GlobalInfo", pub_fields=True),
        dict(file="src/gambit.rs", path="struct JoinedNode", pub_fields=True),
        # interior nodes: the payoff an interior node contributes to everything below it
        dict(file="src/gambit.rs", path="impl IntoGameNode for JoinedNode<'_> / fn into_game_node",
             arm_re=r"let node_payoff = (?=if chance\.outcome\(\))", arm_count=1,
             as_fn="into_game_node__chance_payoff", generics="<'a>", rename_self=True,
             params="self_: &JoinedNode<'a>, chance: &GChance", ret="out", ret_type="f64",
             obligation="C15.V.gambit.interior_payoff", rules=[],
             entry="proof { assume(self_.info.outcomes@.contains_key(chance.outcome_view())); } // outcome numbers of the file are in the table",
             contract="""ensures
    // outcome number 0 means "no outcome here": nothing is added; otherwise player one's payoff of
    // THIS node's outcome, read from the table by its number
    out == (if chance.outcome_view() == 0 { 0.0f64 } else { self_.info.outcomes@[chance.outcome_view()] }), // @ob C15.V.gambit.interior_payoff"""),
        dict(file="src/gambit.rs", path="impl IntoGameNode for JoinedNode<'_> / fn into_game_node",
             arm_re=r"let node_payoff = (?=if player\.outcome\(\))", arm_count=1,
             as_fn="into_game_node__player_payoff", generics="<'a>", rename_self=True,
             params="self_: &JoinedNode<'a>, player: &GPlayer", ret="out", ret_type="f64",
             obligation="C15.V.gambit.interior_payoff", rules=[],
             entry="proof { assume(self_.info.outcomes@.contains_key(player.outcome_view())); }",
             contract="""ensures
    out == (if player.outcome_view() == 0 { 0.0f64 } else { self_.info.outcomes@[player.outcome_view()] }), // @ob C15.V.gambit.interior_payoff"""),
        # children of an interior node inherit the payoffs collected so far plus this node's own
        dict(file="src/gambit.rs", path="impl IntoGameNode for JoinedNode<'_> / fn into_game_node", closure=0,
             header_re=r"^\|\(act, prob, node\)\|$",
             as_fn="into_game_node__chance_child", generics="<'a>", rename_self=True,
             params="act: &Label, prob: &Rational, node: &'a Node<'a>, self_: &JoinedNode<'a>, node_payoff: f64",
             ret="out", ret_type="(String, f64, JoinedNode<'a>)",
             obligation="C15.V.gambit.child_inherits_payoffs", rules=[],
             entry="broadcast use fl; broadcast use ideal;\nproof { ax_obeys(); ax_rv_lits(); assume(prob.val() is Some); } // probabilities of a parsed file convert",
             contract="""ensures
    out.2.node == node && out.2.info == self_.info && rv(out.2.cum_payoff) == rv(self_.cum_payoff) + rv(node_payoff), // @ob C15.V.gambit.child_inherits_payoffs
    Some(out.1) == prob.val(), // @ob C15.V.gambit.child_inherits_payoffs"""),
        dict(file="src/gambit.rs", path="impl IntoGameNode for JoinedNode<'_> / fn into_game_node", closure=0,
             header_re=r"^\|\(act, node\)\|$",
             as_fn="into_game_node__player_child", generics="<'a>", rename_self=True,
             params="act: &Label, node: &'a Node<'a>, self_: &JoinedNode<'a>, node_payoff: f64",
             ret="out", ret_type="(String, JoinedNode<'a>)",
             obligation="C15.V.gambit.child_inherits_payoffs", rules=[],
             entry="broadcast use fl; broadcast use ideal;\nproof { ax_obeys(); ax_rv_lits(); }",
             contract="""ensures
    out.1.node == node && out.1.info == self_.info && rv(out.1.cum_payoff) == rv(self_.cum_payoff) + rv(node_payoff), // @ob C15.V.gambit.child_inherits_payoffs"""),
        dict(file="src/gambit.rs", path="fn get_global_info", arm_re=r"Node::Chance\(chance\) => \{", arm_index=1, arm_count=2,
             as_fn="get_global_info__chance_carries", generics="<'a>",
             params="chance: &GChance, mut cum_pays: [f64; 2], outcomes: &HashMap<u64, [f64; 2]>, queue: &mut Vec<(&'a Node<'a>, [f64; 2])>",
             obligation="C15.V.gambit.constant_sum_interior", rules=[],
             body_subst=[(r"for \(cum, out\) in cum_pays\s*\.iter_mut\(\)\s*\.zip\((outcomes\.get\(&chance\.outcome\(\)\)\.unwrap\(\))\)\s*\{\s*\*cum (?:\+= \*out|= \*cum \+ \*out);?\s*\}",
                          r"__add_outcome(&mut cum_pays, \1);", "R5 element-wise accumulation over a zip of two pairs"),
                         (r"queue\.extend\(chance\.actions\(\)\.iter\(\)\.map\(\|\(_, _, next\)\| \(next, cum_pays\)\)\);", "__queue_children(queue, chance, cum_pays);", "R5 every child queued with the running payoffs")],
             entry="""broadcast use fl; broadcast use ideal;
proof { ax_obeys(); ax_rv_lits(); assume(outcomes@.contains_key(chance.outcome_view())); }
let ghost c0 = cum_pays;""",
             contract="""ensures
    // the analysis carries BOTH players' payoffs of an interior node's outcome (none for outcome 0) down
    // to every child, from the same table and by the same number as the conversion of the tree does
    final(queue)@.len() >= old(queue)@.len() && final(queue)@.take(old(queue)@.len() as int) == old(queue)@,
    forall|k: int| old(queue)@.len() <= k < final(queue)@.len() ==> carried(cum_pays, chance.outcome_view(), outcomes@, (#[trigger] final(queue)@[k]).1), // @ob C15.V.gambit.constant_sum_interior"""),
        dict(file="src/gambit.rs", path="fn get_global_info", arm_re=r"Node::Player\(player\) => \{", arm_index=1, arm_count=2,
             as_fn="get_global_info__player_carries", generics="<'a>",
             params="player: &GPlayer, mut cum_pays: [f64; 2], outcomes: &HashMap<u64, [f64; 2]>, queue: &mut Vec<(&'a Node<'a>, [f64; 2])>",
             obligation="C15.V.gambit.constant_sum_interior", rules=[],
             body_subst=[(r"for \(cum, out\) in cum_pays\s*\.iter_mut\(\)\s*\.zip\((outcomes\.get\(&player\.outcome\(\)\)\.unwrap\(\))\)\s*\{\s*\*cum (?:\+= \*out|= \*cum \+ \*out);?\s*\}",
                          r"__add_outcome(&mut cum_pays, \1);", "R5 element-wise accumulation over a zip of two pairs"),
                         (r"queue\.extend\(player\.actions\(\)\.iter\(\)\.map\(\|\(_, next\)\| \(next, cum_pays\)\)\);", "__queue_children(queue, player, cum_pays);", "R5 every child queued with the running payoffs")],
             entry="""broadcast use fl; broadcast use ideal;
proof { ax_obeys(); ax_rv_lits(); assume(outcomes@.contains_key(player.outcome_view())); }
let ghost c0 = cum_pays;""",
             contract="""ensures
    // the analysis carries BOTH players' payoffs of an interior node's outcome (none for outcome 0) down
    // to every child, from the same table and by the same number as the conversion of the tree does
    final(queue)@.len() >= old(queue)@.len() && final(queue)@.take(old(queue)@.len() as int) == old(queue)@,
    forall|k: int| old(queue)@.len() <= k < final(queue)@.len() ==> carried(cum_pays, player.outcome_view(), outcomes@, (#[trigger] final(queue)@[k]).1), // @ob C15.V.gambit.constant_sum_interior"""),
        # the offset handed to the conversion and to the output: the midpoint of the smallest and the
        # largest half-sum over the leaves (= the half-sum itself when the file is constant sum)
        dict(file="src/gambit.rs", path="fn get_global_info", arm_re=r"\bsum: (?=[\w(])", arm_count=1,
             as_fn="get_global_info__offset", params="min: f64, max: f64", ret="out", ret_type="f64",
             obligation="C15.V.gambit.offset_is_midpoint", rules=[],
             entry="broadcast use fl; broadcast use ideal;\nproof { ax_obeys(); ax_rv_lits(); }",
             contract="""ensures
    rv(out) == (rv(min) + rv(max)) / 2real, // @ob C15.V.gambit.offset_is_midpoint"""),
    ],
)
