UNIT = dict(
    id="c10_full_chance",
    prelude=[],
    expect=[("src/solve/vanilla.rs", r"trait ChanceRecurse: Send \{\s*fn next_nodes<'a>\(&self, chance: &'a Chance\) -> ChanceIter<'_, 'a>;\s*fn advance\(&mut self\);\s*\}")],
    assumptions=[
        "vstd's specification of slice::iter and Iterator::zip",
        "the unsampled method instantiates ChanceRecurse with FullChance only (solve_full_single / solve_full_multi: read)",
    ],
    items=[
        dict(raw="""use std::iter::Zip;
use std::slice;
use vstd::std_specs::iter::{zip_iter_snd, zip_iter_fst};
pub struct Node { }
pub trait ChanceRecurse: Send {
    fn next_nodes<'a>(&self, chance: &'a Chance) -> ChanceIter<'_, 'a>;
    fn advance(&mut self);
}"""),
        dict(file="src/lib.rs", path="struct Chance", pub_fields=True),
        dict(file="src/solve/vanilla.rs", path="type ChanceIter"),
        dict(file="src/solve/vanilla.rs", path="struct FullChance", subst=[(r"struct FullChance<'a>\(&'a \[f64\]\);", "struct FullChance<'a>(pub &'a [f64]);", "R0 field made pub")]),
        dict(file="src/solve/vanilla.rs", path="impl ChanceRecurse for FullChance<'_>", members=[
            dict(path="fn next_nodes", ret="r", obligation="C10.V.full_chance.no_draw",
                 contract="""ensures
    // the unsampled method enumerates ALL outcomes, each with its declared probability, and draws nothing
    zip_iter_fst(r).remaining().len() == self.0@.len(),
    zip_iter_snd(r).remaining().len() == chance.outcomes@.len(),
    forall|i: int| 0 <= i < self.0@.len() ==> *(#[trigger] zip_iter_fst(r).remaining()[i]) == self.0@[i],
    forall|i: int| 0 <= i < chance.outcomes@.len() ==> *(#[trigger] zip_iter_snd(r).remaining()[i]) == chance.outcomes@[i], // @ob C10.V.full_chance.no_draw"""),
            dict(path="fn advance", obligation="C10.V.full_chance.no_draw", contract="ensures *final(self) == *old(self),"),
        ]),
    ],
)
