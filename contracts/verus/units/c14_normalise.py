P = __file__.rsplit("/units/", 1)[0] + "/prelude/"
def block(fn_name, as_fn, loop, n_loops):
    return dict(file="src/lib.rs", path="impl Game / fn %s" % fn_name, loop=loop, n_loops=n_loops,
             header_re=r"^for vals in split_by_mut\(&mut dense, infos\.iter\(\)\.map\(\|info\| info\.num_actions\(\)\)\)",
             as_fn=as_fn, params="vals: &mut [f64]", ret="out", ret_type="Result<(), StratError>", exit="Ok(())",
             allow_return=True, obligation="C14.V.normalise",
             rules=["R3", "R1", "R7", "R9", "R12", "R10"],
             contract="""requires
    old(vals)@.len() >= 1,
ensures
    final(vals)@.len() == old(vals)@.len(),
    // no positive weight in the infoset: the documented error, nothing written
    rsum(old(vals)@, old(vals)@.len() as int) == 0real ==> out == Err::<(), StratError>(StratError::UninitializedInfoset) && final(vals)@ == old(vals)@, // @ob C14.V.normalise.uninitialized
    // otherwise every action gets its weight divided by the infoset total, and the infoset sums to one
    rsum(old(vals)@, old(vals)@.len() as int) != 0real ==> out is Ok
        && (forall|i: int| 0 <= i < old(vals)@.len() ==> rv(#[trigger] final(vals)@[i]) == rv(old(vals)@[i]) / rsum(old(vals)@, old(vals)@.len() as int))
        && rsum(final(vals)@, old(vals)@.len() as int) == 1real, // @ob C14.V.normalise.weight_over_total""",
             entry="""broadcast use fl; broadcast use ideal;
proof { ax_obeys(); ax_rv_lits(); ax_rv_sum_init(); }
let ghost s0 = vals@;
let ghost n = vals@.len();
proof { lemma_fsum_rsum(s0, n as int); }
broadcast use lemma_fsum_ref_is_fsum;""",
             loops={0: dict(kind="for", binder="it",
                            before="proof { assert(total == fsum(s0, n as int)); }",
                            head="""invariant
    it.snapshot@.remaining().len() == n, 0 <= it.index@ <= n,
    forall|i: int| 0 <= i < n ==> *(#[trigger] it.snapshot@.remaining()[i]) == s0[i],
    rv(total) == rsum(s0, n as int), rv(total) != 0real,
    forall|i: int| 0 <= i < it.index@ ==> rv(*final(#[trigger] it.snapshot@.remaining()[i])) == rv(s0[i]) / rv(total),
ensures
    forall|i: int| 0 <= i < n ==> rv(*final(#[trigger] it.snapshot@.remaining()[i])) == rv(s0[i]) / rv(total),""",
                            body_start="broadcast use fl; broadcast use ideal;\nproof { ax_obeys(); ax_rv_lits(); }",
                            after="""proof {
    lemma_rsum_div(s0, vals@, rv(total), n as int);
    assert(rsum(s0, n as int) / rv(total) == 1real) by(nonlinear_arith) requires rv(total) == rsum(s0, n as int), rv(total) != 0real;
}""")})
UNIT = dict(
    id="c14_normalise",
    prelude=["floats.rs", "ideal.rs", "iter_ext.rs", "iter_ext_ideal.rs"],
    canary_use="broadcast use fl; broadcast use ideal; ax_obeys(); ax_rv_lits(); ax_rv_sum_init();",
    assumptions=[
        "idealised-real float mode (an infoset total that overflows to +inf is outside it)",
        "BLOCK: body of the per-infoset normalisation loop of strat_into_box_slow AND of strat_into_box (the two import paths share this text); that the loop visits each infoset's block exactly once is the SplitsByMut::next contract",
        "R7: `vals.iter().sum()` -> `__sum(..)`",
        "infosets have at least one action (multi-action infosets have >= 2)",
    ],
    items=[
        dict(file="src/error.rs", path="enum StratError", attrs="#[derive(PartialEq, Eq)]"),
        dict(raw=open(P + "rsum_lemmas.rs").read()),
        block("strat_into_box_slow", "strat_into_box_slow__normalise", 4, 6),
        block("strat_into_box", "strat_into_box__normalise", 5, 7),
    ],
)
