P = __file__.rsplit("/units/", 1)[0] + "/prelude/"
UNIT = dict(
    id="c06_threshold_player_step",
    prelude=["floats.rs"],
    canary_use="broadcast use fl; ax_obeys();",
    assumptions=[
        "uninterpreted floats",
        "BLOCK: body of the loop over a decision node's actions in vanilla::thread_threshold (the breadth-first frontier expansion), free variables as parameters; every name of the enclosing scope the body could refer to is a parameter with an arbitrary value, so a body that stops initialising its reach vector per action is rejected",
        "PlayerNum::ind_mut two-case spec (Kani harness playernum_ind)",
    ],
    items=[
        dict(file="src/lib.rs", path="enum PlayerNum", attrs="#[derive(Copy, Clone)]"),
        dict(raw=open(P + "playernum.rs").read()),
        dict(file="src/lib.rs", path="enum Node"),
        dict(file="src/lib.rs", path="struct Chance", pub_fields=True),
        dict(file="src/lib.rs", path="struct Player", pub_fields=True),
        dict(raw="""pub open spec fn pnext_spec(num: PlayerNum, p_player: [f64; 2], prob: f64) -> [f64; 2] {
    match num { PlayerNum::One => [fmul(p_player[0], prob), p_player[1]], PlayerNum::Two => [p_player[0], fmul(p_player[1], prob)] }
}"""),
        dict(file="src/solve/vanilla.rs", path="fn thread_threshold", loop=1, n_loops=2,
             header_re=r"^for \(prob, next\) in probs\.iter\(\)\.zip\(player\.actions\.iter\(\)\)",
             as_fn="thread_threshold__player_action", generics="<'a>",
             params="player: &Player, prob: &f64, next: &'a Node, p_chance: f64, p_player: [f64; 2], work: &mut Vec<(&'a Node, f64, [f64; 2])>, mut next_probs: [f64; 2]",
             obligation="C06.V.thread_threshold.frontier_reach",
             contract="""ensures
    // exactly one frontier entry per action: the child, the unchanged chance reach, and the reach
    // vector of ITS path -- only the acting player's entry multiplied by this action's probability
    final(work)@.len() == old(work)@.len() + 1,
    final(work)@.take(old(work)@.len() as int) == old(work)@,
    final(work)@.last().0 == next && final(work)@.last().1 == p_chance, // @ob C06.V.thread_threshold.frontier_reach
    final(work)@.last().2@ == pnext_spec(player.num, p_player, *prob)@, // @ob C06.V.thread_threshold.frontier_reach""",
             entry="broadcast use fl;\nproof { ax_obeys(); }"),
    ],
)
