P = __file__.rsplit("/units/", 1)[0] + "/prelude/"
UNIT = dict(
    id="c06_threshold_player_step",
    prelude=["floats.rs", "ideal.rs"],
    canary_use="broadcast use fl; broadcast use ideal; ax_obeys(); ax_rv_lits();",
    assumptions=[
        "idealised-real float mode for the reach product",
        "BLOCK: the decision-node arm of vanilla::thread_threshold (the breadth-first frontier expansion) -- the lookup of the infoset's current strategy and the loop over the actions --, free variables as parameters",
        "PlayerNum::ind_mut two-case spec (Kani harness playernum_ind)",
        "chance arm: the unit is the expression body of the closure handed to `.map` in `work.extend(info.next_nodes(chance).map(..))`; the chain itself (Vec::extend over Map over the ChanceRecurse iterator, which yields the outcomes the infoset enumerates or samples: C10) is std code pinned by an `expect` pattern",
    ],
    expect=[("src/solve/vanilla.rs", r"Some\(\(Node::Chance\(chance\), p_chance, p_player\)\) => \{\s*(?://[^\n]*\n\s*)*let info = &chance_infosets\[chance\.infoset\];\s*(?://[^\n]*\n\s*)*work\.extend\(\s*info\.next_nodes\(chance\)\s*\.map\(\|\((prob|_prob|_), node\)\| [^|]*\),\s*\);\s*\}")],
    items=[
        dict(file="src/lib.rs", path="enum PlayerNum", attrs="#[derive(Copy, Clone)]"),
        dict(raw=open(P + "playernum.rs").read()),
        dict(file="src/lib.rs", path="enum Node"),
        dict(file="src/lib.rs", path="struct Chance", pub_fields=True),
        dict(file="src/lib.rs", path="struct Player", pub_fields=True),
        dict(raw="""pub open spec fn pnext_ok(num: PlayerNum, p_player: [f64; 2], prob: f64, p_next: [f64; 2]) -> bool {
    match num {
        PlayerNum::One => rv(p_next[0]) == rv(p_player[0]) * rv(prob) && p_next[1] == p_player[1],
        PlayerNum::Two => p_next[0] == p_player[0] && rv(p_next[1]) == rv(p_player[1]) * rv(prob),
    }
}"""),
        dict(raw="""// a selection of action positions, strictly increasing (no action twice, order kept)
pub open spec fn sel_ok(idx: Seq<int>, n: int) -> bool {
    (forall|j: int| 0 <= j < idx.len() ==> 0 <= #[trigger] idx[j] < n)
    && (forall|i: int, j: int| 0 <= i < j < idx.len() ==> idx[i] < idx[j])
}
// the entries added to the frontier are those of the selected actions: the child, the unchanged chance
// reach, and the reach vector of ITS path
pub open spec fn added_ok<'a>(w0: Seq<(&'a Node, f64, [f64; 2])>, w1: Seq<(&'a Node, f64, [f64; 2])>, idx: Seq<int>, player: &'a Player, st: Seq<f64>, p_chance: f64, p_player: [f64; 2]) -> bool {
    w1.len() == w0.len() + idx.len() && w1.take(w0.len() as int) == w0
    && forall|j: int| 0 <= j < idx.len() ==> (#[trigger] w1[w0.len() + j]).0 == &player.actions@[idx[j]]
        && w1[w0.len() + j].1 == p_chance && pnext_ok(player.num, p_player, st[idx[j]], w1[w0.len() + j].2)
}
"""),
        dict(raw="""#[verifier::external_body] pub struct AtomicF64 { }
#[verifier::external_body]
#[verifier::reject_recursive_types(T)]
pub struct Mutex<T> { t: core::marker::PhantomData<T> }
"""),
        dict(file="src/solve/vanilla.rs", path="struct MutexRegretInfoset"),
        dict(file="src/solve/vanilla.rs", path="fn thread_threshold", arm_re=r"Some\(\(Node::Player\(player\), p_chance, p_player\)\) => \{", arm_count=1,
             as_fn="thread_threshold__player_node", generics="<'a, 'b>",
             params="player: &'a Player, p_chance: f64, p_player: [f64; 2], mut player_infosets: [&'b mut [MutexRegretInfoset]; 2], work: &mut Vec<(&'a Node, f64, [f64; 2])>",
             obligation="C06.V.thread_threshold.frontier_reach",
             rules=["R3", "R1", "R9", "R10"],
             contract="""requires
    player.infoset < (match player.num { PlayerNum::One => player_infosets[0]@, PlayerNum::Two => player_infosets[1]@ }).len(),
    (match player.num { PlayerNum::One => player_infosets[0]@, PlayerNum::Two => player_infosets[1]@ })[player.infoset as int].strat@.len() == player.actions@.len(),
ensures
    // every entry added to the frontier belongs to ONE action of this node, no action twice, in order:
    // the child, the unchanged chance reach, and the reach vector of ITS path -- only the acting
    // player's entry multiplied by this action's probability. (Actions may be left out: whatever is
    // not in the frontier is traversed by the pass from the root; the code as it is adds all of them.)
    exists|idx: Seq<int>| #[trigger] sel_ok(idx, player.actions@.len() as int)
        && added_ok(old(work)@, final(work)@, idx, player, (match player.num { PlayerNum::One => player_infosets[0]@, PlayerNum::Two => player_infosets[1]@ })[player.infoset as int].strat@, p_chance, p_player), // @ob C06.V.thread_threshold.frontier_reach""",
             entry="""broadcast use fl; broadcast use ideal;
proof { ax_obeys(); ax_rv_lits(); }
let ghost w0 = work@;
let ghost st = (match player.num { PlayerNum::One => player_infosets[0]@, PlayerNum::Two => player_infosets[1]@ })[player.infoset as int].strat@;
let ghost acts = player.actions@;
let ghost mut idx: Seq<int> = Seq::empty();""",
             loops={0: dict(kind="for", binder="it",
                            before="proof { assert(work@.take(w0.len() as int) =~= w0); }",
                            head="""invariant
    probs@ == st, st.len() == acts.len(), acts == player.actions@,
    0 <= it.index@ <= acts.len(),
    sel_ok(idx, it.index@ as int),
    added_ok(w0, work@, idx, player, st, p_chance, p_player),""",
                            body_start="""broadcast use fl; broadcast use ideal;
proof { ax_obeys(); ax_rv_lits(); }
let ghost k = it.index@ as int;
let ghost wb = work@;""",
                            body_end="""proof {
    // the annotation follows what the body did: an entry was added for action k, or none
    if work@.len() == wb.len() + 1 {
        let i0 = idx;
        idx = i0.push(k);
        assert(work@.take(w0.len() as int) =~= w0);
        assert(forall|j: int| 0 <= j < i0.len() ==> (#[trigger] work@[w0.len() + j]) == wb[w0.len() + j]);
        assert(forall|j: int| 0 <= j < i0.len() ==> idx[j] == i0[j]);
        assert(work@[(w0.len() + i0.len()) as int] == work@.last());
    } else {
        assert(work@ == wb);
    }
}""")}),
        # chance arm of the frontier expansion: `work.extend(info.next_nodes(chance).map(F))`; F is an
        # expression-bodied closure, extracted as a fn (the extend/map chain is std code, pinned textually)
        dict(file="src/solve/vanilla.rs", path="fn thread_threshold", closure=0, expr_closure=True,
             header_re=r"^\|\((prob|_prob|_), node\)\|$",
             as_fn="thread_threshold__chance_outcome", generics="<'a>",
             params="prob: &f64, node: &'a Node, p_chance: f64, p_player: [f64; 2]",
             ret="out", ret_type="(&'a Node, f64, [f64; 2])",
             obligation="C06.V.thread_threshold.frontier_reach_chance",
             rules=[],
             entry="broadcast use fl; broadcast use ideal;\nproof { ax_obeys(); ax_rv_lits(); }",
             contract="""ensures
    // a chance outcome enters the frontier with the chance reach of ITS path (parent reach x outcome
    // probability) and unchanged player reaches
    out.0 == node && out.2 == p_player, // @ob C06.V.thread_threshold.frontier_reach_chance
    rv(out.1) == rv(p_chance) * rv(*prob), // @ob C06.V.thread_threshold.frontier_reach_chance"""),
    ],
)
