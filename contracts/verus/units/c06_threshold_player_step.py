P = __file__.rsplit("/units/", 1)[0] + "/prelude/"
UNIT = dict(
    id="c06_threshold_player_step",
    prelude=["floats.rs", "ideal.rs"],
    canary_use="broadcast use fl; broadcast use ideal; ax_obeys(); ax_rv_lits();",
    assumptions=[
        "idealised-real float mode for the reach product",
        "BLOCK: body of the loop over a decision node's actions in vanilla::thread_threshold (the breadth-first frontier expansion), free variables as parameters; every name of the enclosing scope the body could refer to is a parameter with an arbitrary value, so a body that stops initialising its reach vector per action is rejected",
        "PlayerNum::ind_mut two-case spec (Kani harness playernum_ind)",
        "chance arm: the unit is the expression body of the closure handed to `.map` in `work.extend(info.next_nodes(chance).map(..))`; the chain itself (Vec::extend over Map over the ChanceRecurse iterator, which yields the outcomes the infoset enumerates or samples: C10) is std code pinned by an `expect` pattern",
    ],
    expect=[("src/solve/vanilla.rs", r"Some\(\(Node::Chance\(chance\), p_chance, p_player\)\) => \{\s*let info = &chance_infosets\[chance\.infoset\];\s*work\.extend\(\s*info\.next_nodes\(chance\)\s*\.map\(\|\(prob, node\)\| [^|]*\),\s*\);\s*\}")],
    items=[
        dict(file="src/lib.rs", path="enum PlayerNum", attrs="#[derive(Copy, Clone)]"),
        dict(raw=open(P + "playernum.rs").read()),
        dict(file="src/lib.rs", path="enum Node"),
        dict(file="src/lib.rs", path="struct Chance", pub_fields=True),
        dict(file="src/lib.rs", path="struct Player", pub_fields=True),
        dict(raw="""pub open spec fn pnext_ok(num: PlayerNum, p_player: [f64; 2], prob: f64, p_next: [f64; 2]) -> bool {
    match num {
        PlayerNum::One => rv(p_next[0]) == rv(p_player[0]) * rv(prob) && p_next[1] == p_player[1],
        PlayerNum::Two => p_next[0] == p_player[0] && rv(p_next[1]) == rv(p_player[1]) * rv(prob),
    }
}"""),
        dict(file="src/solve/vanilla.rs", path="fn thread_threshold", loop=1, n_loops=2,
             header_re=r"^for \(prob, next\) in probs\.iter\(\)\.zip\(player\.actions\.iter\(\)\)",
             as_fn="thread_threshold__player_action", generics="<'a>",
             params="player: &Player, prob: &f64, next: &'a Node, p_chance: f64, p_player: [f64; 2], work: &mut Vec<(&'a Node, f64, [f64; 2])>, mut next_probs: [f64; 2]",
             obligation="C06.V.thread_threshold.frontier_reach",
             contract="""ensures
    // exactly one frontier entry per action: the child, the unchanged chance reach, and the reach
    // vector of ITS path -- only the acting player's entry multiplied by this action's probability
    final(work)@.len() == old(work)@.len() + 1,
    final(work)@.take(old(work)@.len() as int) == old(work)@,
    final(work)@.last().0 == next && final(work)@.last().1 == p_chance, // @ob C06.V.thread_threshold.frontier_reach
    pnext_ok(player.num, p_player, *prob, final(work)@.last().2), // @ob C06.V.thread_threshold.frontier_reach""",
             entry="broadcast use fl; broadcast use ideal;\nproof { ax_obeys(); ax_rv_lits(); }"),
        # chance arm of the frontier expansion: `work.extend(info.next_nodes(chance).map(F))`; F is an
        # expression-bodied closure, extracted as a fn (the extend/map chain is std code, pinned textually)
        dict(file="src/solve/vanilla.rs", path="fn thread_threshold", closure=0, expr_closure=True,
             header_re=r"^\|\(prob, node\)\|$",
             as_fn="thread_threshold__chance_outcome", generics="<'a>",
             params="prob: &f64, node: &'a Node, p_chance: f64, p_player: [f64; 2]",
             ret="out", ret_type="(&'a Node, f64, [f64; 2])",
             obligation="C06.V.thread_threshold.frontier_reach_chance",
             rules=[],
             entry="broadcast use fl; broadcast use ideal;\nproof { ax_obeys(); ax_rv_lits(); }",
             contract="""ensures
    // a chance outcome enters the frontier with the chance reach of ITS path (parent reach x outcome
    // probability) and unchanged player reaches
    out.0 == node && out.2 == p_player, // @ob C06.V.thread_threshold.frontier_reach_chance
    rv(out.1) == rv(p_chance) * rv(*prob), // @ob C06.V.thread_threshold.frontier_reach_chance"""),
    ],
)
