P = __file__.rsplit("/units/", 1)[0] + "/prelude/"
INV = """invariant
    c == vctx_of(PLAYER_ONE, infosets, chance_info, strat_info),
    vwf(*node, c),
    *node == %(ctor)s,%(extra)s
    probs@ == vweights(*node, c),
    probs@.len() == %(kids)s@.len(),
    0 <= it.index@ <= probs@.len(),
    forall|i: int| 0 <= i < search_queue@.len() ==> vwf(*(#[trigger] search_queue@[i]).0, c),
    vqsum(search_queue@, c) == vqsum(q0, c) + rv(reach) * vsum(*node, c, it.index@), // @ob C01.V.next_infoset_search.value"""
START = """broadcast use fl; broadcast use ideal;
proof { ax_obeys(); ax_rv_lits(); }
let ghost k = it.index@;
let ghost qb = search_queue@;
proof {
    assert(kids_of(*node)[k] == *next);
    assert(vsum(*node, c, k + 1) == vsum(*node, c, k) + rv(probs@[k]) * val(*next, c));
}"""
BEFORE = "let ghost q0 = search_queue@;\nproof { assert(vsum(*node, c, 0) == 0real); }"

UNIT = dict(
    id="c01_next_infoset_search",
    prelude=["floats.rs", "ideal.rs", "std_ext.rs", "infoset_traits.rs"],
    canary_use="broadcast use fl; broadcast use ideal; ax_obeys(); ax_rv_lits();",
    expect=[("src/lib.rs", r"trait ChanceInfoset \{\s*fn probs\(&self\) -> &\[f64\];\s*\}")],
    assumptions=[
        "idealised-real float mode (rv axioms of prelude/ideal.rs)",
        "vwf: infoset indices in range, weight vectors as long as child lists, opponent strategy entries >= 0 (assumed from from_root / strat_into_box)",
        "termination of next_infoset_search not proved (exec_allows_no_decreases_clause)",
        "R10: the two debug_assert_eq! statements on info.prob_nodes / info.future_nodes are dropped",
    ],
    items=[
        dict(file="src/lib.rs", path="enum PlayerNum", attrs="#[derive(Copy, Clone)]"),
        dict(raw=open(P + "playernum.rs").read()),
        dict(file="src/lib.rs", path="enum Node"),
        dict(file="src/lib.rs", path="struct Chance", pub_fields=True),
        dict(file="src/lib.rs", path="struct Player", pub_fields=True),
        dict(file="src/regret.rs", path="struct DeviationInfo", pub_fields=True),
        dict(raw=open(P + "tree_common.rs").read()),
        dict(raw=open(P + "val_spec.rs").read()),
        dict(
            file="src/regret.rs", path="fn next_infoset_search", ret="out",
            attrs="#[verifier::exec_allows_no_decreases_clause]",
            obligation="C01.V.next_infoset_search.value",
            n_loops=3,
            contract="""requires
    old(search_queue)@.len() == 0,
    vwf(*start, vctx_of(PLAYER_ONE, infosets, chance_info, strat_info)),
ensures
    final(search_queue)@.len() == 0, // @ob C01.V.next_infoset_search.queue_empty
    rv(out) == val(*start, vctx_of(PLAYER_ONE, infosets, chance_info, strat_info)), // @ob C01.V.next_infoset_search.value""",
            entry="""broadcast use fl; broadcast use ideal;
proof { ax_obeys(); ax_rv_lits(); }
let ghost c = vctx_of(PLAYER_ONE, infosets, chance_info, strat_info);""",
            loops={
                0: dict(kind="while",
                        before="""proof {
    assert(search_queue@ =~= Seq::<(&Node, f64)>::empty().push((start, 1.0f64)));
    lemma_vqsum_push(Seq::<(&Node, f64)>::empty(), (start, 1.0f64), c);
}""",
                        head="""invariant
    c == vctx_of(PLAYER_ONE, infosets, chance_info, strat_info),
    forall|i: int| 0 <= i < search_queue@.len() ==> vwf(*(#[trigger] search_queue@[i]).0, c),
    rv(res) + vqsum(search_queue@, c) == val(*start, c), // @ob C01.V.next_infoset_search.value
ensures
    search_queue@.len() == 0,""",
                        body_start="broadcast use fl; broadcast use ideal;\nproof { ax_obeys(); ax_rv_lits(); }",
                        body_end="""proof {
    let r = rv(reach);
    let v = val(*node, c);
    assert(r * (0real - v) == 0real - v * r) by(nonlinear_arith);
    assert(r * v == v * r) by(nonlinear_arith);
    if let Node::Terminal(p) = *node {
        let pv = rv(p);
        assert(r * (0real - pv) == 0real - pv * r) by(nonlinear_arith);
        assert(r * pv == pv * r) by(nonlinear_arith);
    }
}""",
                        after="proof { assert(vqsum(search_queue@, c) == 0real); }"),
                1: dict(kind="for", binder="it", before=BEFORE,
                        head=INV % dict(ctor="Node::Chance(*chance)", kids="chance.outcomes", extra=""),
                        body_start=START,
                        body_end="""proof {
    assert(search_queue@ =~= qb.push(search_queue@.last()));
    assert(search_queue@.last().0 == next && rv(search_queue@.last().1) == rv(*prob) * rv(reach));
    lemma_vqsum_push(qb, search_queue@.last(), c);
    lemma_dist(rv(reach), vsum(*node, c, k), rv(*prob), val(*next, c));
}"""),
                2: dict(kind="for", binder="it", before=BEFORE,
                        head=INV % dict(ctor="Node::Player(*player)", kids="player.actions", extra="\n    !own(*node, c.p1),"),
                        body_start=START + "\nproof { assert(rv(vweights(*node, c)[k]) >= 0real); }",
                        body_end="""proof {
    let w = rv(*prob); let r = rv(reach); let e = val(*next, c);
    lemma_dist(r, vsum(*node, c, k), w, e);
    if w > 0real {
        assert(search_queue@ =~= qb.push(search_queue@.last()));
        assert(search_queue@.last().0 == next && rv(search_queue@.last().1) == w * r);
        lemma_vqsum_push(qb, search_queue@.last(), c);
    } else {
        assert((w * r) * e == 0real) by(nonlinear_arith) requires w == 0real;
        assert(w * e == 0real) by(nonlinear_arith) requires w == 0real;
    }
}"""),
            },
        ),
    ],
)
