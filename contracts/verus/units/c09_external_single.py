HEAD = """invariant_except_break
    k == r.index@,
    forall|j: nat| 1 <= j <= k ==> !below_at(s0, j, max_reg),
invariant
    __st.g@ == state_after(s0, k),
    k <= max_iter,
    k == 0 ==> reg_one == finf() && reg_two == finf(),
    k > 0 ==> (reg_one, reg_two) == regs_at(s0, k),
ensures
    forall|j: nat| 1 <= j < k ==> !below_at(s0, j, max_reg), // @ob C09.V.first_below.no_earlier_stop
    k < max_iter ==> k >= 1 && below_at(s0, k, max_reg), // @ob C09.V.first_below.stops_only_below"""
ENTRY = """broadcast use fl;
proof { ax_obeys(); }
let mut __st = __init_state();
proof { assume(__st.g@ == __s0()); }
let ghost s0 = __st.g@;
let ghost mut k: nat = 0;"""
ASSUME = [
    "R6 slice: traversals, chance advance, per-infoset advance (and their sums into reg_one / reg_two) and the final strategy extraction are replaced by uninterpreted deterministic state transformers; abstracted statements contain no break/continue/return/? and do not mention max_reg (checked on every run)",
    "uninterpreted floats: `<` and f64::max are the same functions in spec and code; no IEEE fact is used",
    "sampling decisions fixed (premise of the property): each pass is a function of (state, iteration number)",
]
CHANCE_ADV = r"^chance_infosets \.iter_mut\(\) \.for_each\(\|info\| info\.get_mut\(\)\.advance\(\)\);$"
UNIT = dict(
    id="c09_external_single",
    prelude=["floats.rs", "slice_state_ext.rs"],
    canary_use="broadcast use fl; ax_obeys();",
    assumptions=ASSUME,
    items=[
        dict(raw="""pub trait ChanceInfoset { }
pub trait PlayerInfoset { }
#[verifier::external_body] pub struct RegretParams { }
#[verifier::external_body] pub struct Node { }
"""),
        dict(file="src/solve/data.rs", path="type SolveInfo"),
        dict(file="src/solve/external.rs", path="fn solve_external_single", ret="out", n_loops=1,
             obligation="C09.V.first_below", forbidden=["max_reg"],
             table=[
                 (r"^let mut chance_infosets: Box<\[_\]> = chance_info \.iter\(\) \.map\(\|info\| RefCell::new\(SampledChance::new\(info\.probs\(\)\)\)\) \.collect\(\);$", ("abstract", "")),
                 (r"^let \[mut player_one, mut player_two\] = player_info\.map\(\|infos\| \{ infos \.iter\(\) \.map\(\|info\| RefCell::new\(CachedInfoset::new\(info\.num_actions\(\)\)\)\) \.collect::<Box<\[_\]>>\(\) \}\);$", ("abstract", "")),
                 (r"^let strats = \[player_one, player_two\]\.map\(", ("abstract", "let strats = __abs_final_strats(&__st);")),
             ],
             loop_tables={0: [
                 (r"^recurse_regret::<true>\(start, &chance_infosets, &player_one, &player_two, &\(\)\);$", ("abstract", "")),
                 (CHANCE_ADV, ("abstract", "")),
                 (r"^reg_one = player_one \.iter_mut\(\) \.map\(\|info\| info\.get_mut\(\)\.advance::<true>\(it, params\)\) \.sum\(\);$", ("abstract", "reg_one = __abs_pass_one(&mut __st, it);")),
                 (r"^recurse_regret::<false>\(start, &chance_infosets, &player_two, &player_one, &\(\)\);$", ("abstract", "")),
                 (r"^reg_two = player_two \.iter_mut\(\) \.map\(\|info\| info\.get_mut\(\)\.advance::<false>\(it, params\)\) \.sum\(\);$", ("abstract", "reg_two = __abs_pass_two(&mut __st, it);")),
             ]},
             contract="""ensures
    exists|k: nat| #![trigger state_after(__s0(), k)] k <= max_iter
        && (forall|j: nat| 1 <= j < k ==> !below_at(__s0(), j, max_reg))
        && (k < max_iter ==> k >= 1 && below_at(__s0(), k, max_reg))
        && (k == 0 ==> out.0[0] == finf() && out.0[1] == finf())
        && (k > 0 ==> (out.0[0], out.0[1]) == regs_at(__s0(), k))
        && out.1 == strats_of(state_after(__s0(), k)), // @ob C09.V.first_below.returns_state_k""",
             entry=ENTRY,
             loops={0: dict(kind="for", binder="r", head=HEAD,
                            body_start="broadcast use fl;\nproof { ax_obeys(); k = k + 1; }")},
        ),
    ],
)
