def into_subst(name):
    return [(r"data: impl Into<Box<\[%s\]>>" % name, "data: Vec<%s>" % name, "TYPE-SUBST the `impl Into<Box<[T]>>` argument at Vec<T> (what init_recurse passes)"),]
UNIT = dict(
    id="c11_constructors",
    prelude=["floats.rs", "iter_ext.rs"],
    canary_use="broadcast use fl; ax_obeys();",
    assumptions=[
        "TYPE-SUBST: `impl Into<Box<[T]>>` arguments are instantiated at Vec<T> (what init_recurse passes); `Vec<T> -> Box<[T]>` keeps the elements in order (std, assumed: __into_box)",
        "the constructors of the internal game representation store exactly what construction computed: nothing is renormalised, reordered or dropped on the way into the tables that evaluation, solving, export and import read",
    ],
    items=[
        dict(raw="""#[verifier::external_body] pub struct Node { }
// std: `impl<T> From<Vec<T>> for Box<[T]>` (into_boxed_slice)
#[verifier::external_body]
pub fn __into_box<T>(v: Vec<T>) -> (r: Box<[T]>) ensures r@ == v@ { unimplemented!() }
"""),
        dict(file="src/lib.rs", path="struct Chance", pub_fields=True),
        dict(file="src/lib.rs", path="struct ChanceInfosetData", pub_fields=True),
        dict(file="src/lib.rs", path="struct PlayerInfosetBuilder", pub_fields=True),
        dict(file="src/lib.rs", path="struct PlayerInfosetData", pub_fields=True),
        dict(file="src/lib.rs", path="impl Chance", members=[
            dict(path="fn new", ret="r", vis="pub ", obligation="C11.V.constructors.chance_node", rules=[],
                 sig_subst=into_subst("Node"), body_subst=[(r"data\.into\(\)", "__into_box(data)", "TYPE-SUBST Into at Vec")],
                 contract="ensures r.outcomes@ == data@, r.infoset == infoset, // @ob C11.V.constructors.chance_node")]),
        dict(file="src/lib.rs", path="impl ChanceInfosetData", members=[
            dict(path="fn new", ret="r", vis="pub ", obligation="C11.V.constructors.chance_infoset", rules=["R1", "R7"],
                 sig_subst=into_subst("f64"), body_subst=[(r"data\.into\(\)", "__into_box(data)", "TYPE-SUBST Into at Vec")],
                 contract="""ensures
    // the probabilities a chance infoset is recorded with are exactly the normalised ones init_recurse
    // computed (later nodes of the infoset are compared against them with ==)
    r.probs@ == data@, // @ob C11.V.constructors.chance_infoset""")]),
        dict(file="src/lib.rs", path="impl PlayerInfosetBuilder", members=[
            dict(path="fn new", ret="r", vis="pub ", obligation="C11.V.constructors.player_builder", rules=[],
                 sig_subst=[(r"actions: impl Into<Box<\[A\]>>", "actions: Vec<A>", "TYPE-SUBST Into at Vec")],
                 body_subst=[(r"actions\.into\(\)", "__into_box(actions)", "TYPE-SUBST Into at Vec")],
                 contract="ensures r.actions@ == actions@, r.prev_infoset == prev_infoset, // @ob C11.V.constructors.player_builder")]),
        dict(file="src/lib.rs", path="impl PlayerInfosetData", members=[
            dict(path="fn new", ret="r", vis="pub ", obligation="C11.V.constructors.player_infoset", rules=[],
                 contract="ensures r.infoset == infoset, r.actions == builder.actions, r.prev_infoset == builder.prev_infoset, // @ob C11.V.constructors.player_infoset"),
            dict(path="fn num_actions", ret="r", vis="pub ", obligation="C11.V.constructors.num_actions", rules=[],
                 contract="ensures r == self.actions@.len(), // @ob C11.V.constructors.num_actions")]),
    ],
)
