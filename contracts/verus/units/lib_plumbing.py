STUBS = r"""
use std::hash::Hash;
#[verifier::external_body] pub struct Node { }
#[verifier::external_body] pub struct ChanceInfosetData { }
#[verifier::external_body]
#[verifier::reject_recursive_types(I)]
#[verifier::reject_recursive_types(A)]
pub struct PlayerInfosetData<I, A> { _p: core::marker::PhantomData<(I, A)> }
#[derive(PartialEq, Eq, Structural)]
pub struct StratError { }
// result of importing one player's named weights, as a function of (weights, that player's infosets,
// that player's single-action infosets); which = 0 hashing path, 1 scanning path
pub uninterp spec fn import_spec<S, I, A>(which: int, strat: S, infos: Seq<PlayerInfosetData<I, A>>, singles: Seq<(I, A)>) -> Result<Box<[f64]>, StratError>;
// ---- callees, bound (R5) to uninterpreted functions of ALL their arguments: what the unit decides is
// which table is handed to which call ----
#[verifier::external_body]
#[verifier::reject_recursive_types(I)]
#[verifier::reject_recursive_types(A)]
pub struct NamedStrategyIter<'a, I, A> { _p: core::marker::PhantomData<&'a (I, A)> }
pub uninterp spec fn named_spec<I, A>(info: Seq<PlayerInfosetData<I, A>>, probs: Seq<f64>, singles: Seq<(I, A)>) -> int;
impl<'a, I, A> NamedStrategyIter<'a, I, A> {
    pub uninterp spec fn id(&self) -> int;
    // (the real constructor and iterator are under contract in c13_named_iter)
    #[verifier::external_body]
    pub fn new(info: &'a [PlayerInfosetData<I, A>], probs: &'a [f64], singles: &'a [(I, A)]) -> (r: Self)
        ensures r.id() == named_spec(info@, probs@, singles@),
    { unimplemented!() }
}
pub open spec fn views(s: Seq<&[f64]>) -> Seq<Seq<f64>> { Seq::new(s.len(), |i: int| s[i]@) }
pub uninterp spec fn split_spec<I, A>(strat: Seq<f64>, info: Seq<PlayerInfosetData<I, A>>) -> Seq<Seq<f64>>;
// R6: `split_by(S, INFO.iter().map(|info| info.num_actions())).collect()` -- the dense vector S cut into
// INFO's infosets (V.SplitsBy.next.partition + the std collect)
#[verifier::external_body]
pub fn __split<'a, I, A>(strat: &'a Box<[f64]>, info: &Box<[PlayerInfosetData<I, A>]>) -> (r: Box<[&'a [f64]]>)
    ensures views(r@) == split_spec(strat@, info@),
{ unimplemented!() }
pub uninterp spec fn regret_spec<I, A>(root: Node, chance: Seq<ChanceInfosetData>, info_one: Seq<PlayerInfosetData<I, A>>, info_two: Seq<PlayerInfosetData<I, A>>,
    strat_one: Seq<Seq<f64>>, strat_two: Seq<Seq<f64>>) -> (f64, [f64; 2]);
pub mod regret {
    use super::*;
    // (the real regret() is under contract in c01_regret_wrapper)
    #[verifier::external_body]
    pub fn regret<I, A>(start: &Node, chance_info: &[ChanceInfosetData], player_info: [&Box<[PlayerInfosetData<I, A>]>; 2], strat_info: [&[&[f64]]; 2]) -> (r: (f64, [f64; 2]))
        ensures r == regret_spec(*start, chance_info@, player_info[0]@, player_info[1]@, views(strat_info[0]@), views(strat_info[1]@)),
    { unimplemented!() }
}
"""
UNIT = dict(
    id="lib_plumbing",
    prelude=[],
    canary_use="",
    assumptions=[
        "R5: NamedStrategyIter::new, regret::regret and the split_by(..).collect() statements are bound to uninterpreted functions of all their arguments; the unit decides only WHICH player's table is handed to which call (a swapped pairing compiles and passes every symmetric test)",
        "Game / Strategies / StrategiesInfo are the extracted structs; infoset element types are opaque",
    ],
    items=[
        dict(raw=STUBS),
        dict(file="src/lib.rs", path="struct Game", pub_fields=True, attrs="#[verifier::reject_recursive_types(Infoset)]\n#[verifier::reject_recursive_types(Action)]"),
        dict(file="src/lib.rs", path="struct Strategies", pub_fields=True, attrs="#[verifier::reject_recursive_types(Infoset)]\n#[verifier::reject_recursive_types(Action)]"),
        dict(file="src/lib.rs", path="struct StrategiesInfo", pub_fields=True),
        dict(file="src/lib.rs", path="impl Strategies", members=[
            dict(path="fn as_named", ret="r", vis="pub ", obligation="C13.V.as_named.pairs_tables",
                 rules=["R3"],
                 contract="""ensures
    // player k's named view is built from player k's infosets, player k's dense vector and player k's
    // single-action infosets
    r[0].id() == named_spec(self.game.player_infosets[0]@, self.probs[0]@, self.game.single_infosets[0]@), // @ob C13.V.as_named.pairs_tables
    r[1].id() == named_spec(self.game.player_infosets[1]@, self.probs[1]@, self.game.single_infosets[1]@), // @ob C13.V.as_named.pairs_tables"""),
            dict(path="fn get_info", ret="r", vis="pub ", obligation="C01.V.get_info.pairs_tables",
                 rules=["R3"],
                 table=[(r"^let (\w+)_split: Box<\[&\[f64\]\]> = split_by\((\w+), (\w+)\.iter\(\)\.map\(\|info\| info\.num_actions\(\)\)\)\.collect\(\);$",
                         ("abstract", r"let \1_split: Box<[&[f64]]> = __split(\2, \3);"))],
                 contract="""ensures
    // utility and regrets are those of THIS profile in THIS game: player k's dense vector is cut along
    // player k's infosets and handed over in player order
    (r.util, r.regrets) == regret_spec(self.game.root, self.game.chance_infosets@, self.game.player_infosets[0]@, self.game.player_infosets[1]@,
        split_spec(self.probs[0]@, self.game.player_infosets[0]@), split_spec(self.probs[1]@, self.game.player_infosets[1]@)), // @ob C01.V.get_info.pairs_tables"""),
        ]),
        dict(file="src/lib.rs", path="impl Game",
             ghost_members="""    // (validation / normalisation of one player's weights: c14_hash_validate, c14_normalise, Kani C14 cases)
    #[verifier::external_body]
    fn strat_into_box<S>(strat: S, infos: &[PlayerInfosetData<I, A>], raw_singles: &[(I, A)]) -> (r: Result<Box<[f64]>, StratError>)
        ensures r == import_spec::<S, I, A>(0, strat, infos@, raw_singles@),
    { unimplemented!() }""",
             members=[dict(path="fn from_named", ret="r", vis="pub ", obligation="C14.V.from_named.pairs_tables",
                 rules=["R3"],
                 sig_subst=[(r"(?s)strats: \[impl IntoIterator<.*?>; 2\],", "strats: [S; 2],", "TYPE-SUBST the named-weights argument at an arbitrary Copy type S (e.g. a reference to a collection)"),
                            (r"fn from_named\(", "fn from_named<S: Copy>(", "TYPE-SUBST")],
                 contract="""ensures
    // player k's weights are imported against player k's infosets and single-action infosets; the
    // profile belongs to this game; the first failing player's error is returned
    match (import_spec::<S, I, A>(0, strats[0], self.player_infosets[0]@, self.single_infosets[0]@), import_spec::<S, I, A>(0, strats[1], self.player_infosets[1]@, self.single_infosets[1]@)) {
        (Ok(a), Ok(b)) => r is Ok && r->Ok_0.game == self && r->Ok_0.probs[0] == a && r->Ok_0.probs[1] == b,
        (Err(e), _) => r is Err && r->Err_0 == e,
        (Ok(_), Err(e)) => r is Err && r->Err_0 == e,
    }, // @ob C14.V.from_named.pairs_tables""")]),
        dict(file="src/lib.rs", path="impl Game",
             ghost_members="""    // (validation / normalisation of one player's weights: c14_hash_validate, c14_normalise, Kani C14 cases)
    #[verifier::external_body]
    fn strat_into_box_slow<S>(strat: S, infos: &[PlayerInfosetData<I, A>], raw_singles: &[(I, A)]) -> (r: Result<Box<[f64]>, StratError>)
        ensures r == import_spec::<S, I, A>(1, strat, infos@, raw_singles@),
    { unimplemented!() }""",
             members=[dict(path="fn from_named_eq", ret="r", vis="pub ", obligation="C14.V.from_named_eq.pairs_tables",
                 rules=["R3"],
                 sig_subst=[(r"(?s)strats: \[impl IntoIterator<.*?>; 2\],", "strats: [S; 2],", "TYPE-SUBST the named-weights argument at an arbitrary Copy type S (e.g. a reference to a collection)"),
                            (r"fn from_named_eq\(", "fn from_named_eq<S: Copy>(", "TYPE-SUBST")],
                 contract="""ensures
    // player k's weights are imported against player k's infosets and single-action infosets; the
    // profile belongs to this game; the first failing player's error is returned
    match (import_spec::<S, I, A>(1, strats[0], self.player_infosets[0]@, self.single_infosets[0]@), import_spec::<S, I, A>(1, strats[1], self.player_infosets[1]@, self.single_infosets[1]@)) {
        (Ok(a), Ok(b)) => r is Ok && r->Ok_0.game == self && r->Ok_0.probs[0] == a && r->Ok_0.probs[1] == b,
        (Err(e), _) => r is Err && r->Err_0 == e,
        (Ok(_), Err(e)) => r is Err && r->Err_0 == e,
    }, // @ob C14.V.from_named_eq.pairs_tables""")]),
    ],
)
