UNIT = dict(
    id="c01_optdev_seed",
    prelude=[],
    canary_use="",
    # the chain the predicate is passed to (std adapters: indices of the elements satisfying the predicate, in order)
    expect=[("src/regret.rs", r"let mut info_queue: Vec<_> = infosets\s*\.iter\(\)\s*\.enumerate\(\)\s*\.filter\(\|\(_, dev\)\| [^|]*\)\s*\.map\(\|\(info, _\)\| info\)\s*\.collect\(\);\s*while let Some\(info\) = info_queue\.pop\(\)")],
    assumptions=[
        "BLOCK: the unit is the predicate (expression body of the closure passed to `.filter`) that seeds the bottom-up resolution queue of optimal_deviations between its two passes; the surrounding chain `infosets.iter().enumerate().filter(P).map(|(info, _)| info).collect()` is std adapter code, pinned textually (an `expect` pattern: any other shape is reported undecided) and trusted to yield the indices satisfying P",
        "that seeding exactly the reached leaves of the infoset forest makes the queue discipline resolve each infoset after its successors is the global order argument (not proved; see c01_optdev_resolve)",
    ],
    items=[
        dict(raw="""#[verifier::external_body] pub struct Player { }"""),
        dict(file="src/regret.rs", path="struct DeviationInfo", pub_fields=True),
        dict(file="src/regret.rs", path="fn optimal_deviations", closure=0, expr_closure=True,
             header_re=r"^\|\(_, dev\)\|$",
             as_fn="optimal_deviations__seed_predicate",
             generics="<'a>",
             params="dev: &DeviationInfo<'a>",
             ret="out", ret_type="bool",
             obligation="C01.V.optimal_deviations.seed",
             rules=[],
             contract="""ensures
    // an infoset starts in the resolution queue exactly when nothing below it is pending AND the first
    // pass recorded at least one node for it: an unreached infoset has no reach to normalise by, and
    // resolving it would credit its predecessor with zero nodes and enqueue that predecessor a second time
    out == (dev.future_nodes == 0 && dev.prob_nodes@.len() > 0), // @ob C01.V.optimal_deviations.seed"""),
    ],
)
