def block(fn, as_fn, extra_params, extra_args, call_re):
    return dict(file="src/solve/vanilla.rs", path="fn %s" % fn, loop=0,
             header_re=r"^for \(prob, next\) in chance_infosets\[chance\.infoset\]\.next_nodes\(chance\)",
             as_fn=as_fn,
             params="prob: &f64, next: &Node, mut expected: f64, p_chance: f64, p_player: [f64; 2]" + extra_params,
             ret="out", ret_type="f64", exit="expected",
             obligation="C08.V.chance_reach",
             contract="""ensures
    // the outcome's subtree is visited with the chance reach of ITS path (parent reach x outcome
    // probability) and unchanged player reaches; its payoff enters the expectation weighted by the
    // outcome probability
    exists|pc: f64| rv(pc) == rv(p_chance) * rv(*prob)
        && rv(out) == rv(expected) + rv(*prob) * rv(#[trigger] sub_spec(*next, pc, p_player)), // @ob C08.V.chance_reach.product_along_path""",
             entry="broadcast use fl; broadcast use ideal;\nproof { ax_obeys(); ax_rv_lits(); }")
UNIT = dict(
    id="c08_chance_reach",
    prelude=["floats.rs", "ideal.rs"],
    canary_use="broadcast use fl; broadcast use ideal; ax_obeys(); ax_rv_lits();",
    assumptions=[
        "idealised-real float mode for the reach product (harmless reorderings of operands do not disturb the proof)",
        "BLOCK: body of the loop over chance outcomes in recurse_single / recurse_multi, with the recursive call bound (R5) to an uninterpreted function of (node, chance reach, player reaches); which outcomes the loop iterates over (all of them / the sampled one) is the ChanceRecurse::next_nodes contract (C10)",
        "the infoset tables passed through the recursion (RefCell / Mutex / atomics) are opaque here",
    ],
    items=[
        dict(raw="""#[verifier::external_body] pub struct Node { }
#[verifier::external_body] pub struct Tables { }
#[verifier::external_body] pub struct Cache { }
// value returned by the recursive traversal of a subtree entered with the given reaches
pub uninterp spec fn sub_spec(n: Node, p_chance: f64, p_player: [f64; 2]) -> f64;
#[verifier::external_body]
pub fn recurse_single(node: &Node, chance_infosets: &Tables, player_infosets: &Tables, p_chance: f64, p_player: [f64; 2]) -> (r: f64)
    ensures r == sub_spec(*node, p_chance, p_player),
{ unimplemented!() }
#[verifier::external_body]
pub fn recurse_multi(node: &Node, chance_infosets: &Tables, player_infosets: &Tables, p_chance: f64, p_player: [f64; 2], cached: &Cache) -> (r: f64)
    ensures r == sub_spec(*node, p_chance, p_player),
{ unimplemented!() }"""),
        block("recurse_single", "recurse_single__chance_outcome", ", chance_infosets: &Tables, player_infosets: &Tables", "", ""),
        block("recurse_multi", "recurse_multi__chance_outcome", ", chance_infosets: &Tables, player_infosets: &Tables, cached: &Cache", "", ""),
    ],
)
