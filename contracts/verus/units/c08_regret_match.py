P = __file__.rsplit("/units/", 1)[0] + "/prelude/"
SPECS = """pub assume_specification<T: Clone> [<[T]>::fill] (s: &mut [T], v: T)
    ensures final(s)@.len() == old(s)@.len(), forall|i: int| 0 <= i < old(s)@.len() ==> #[trigger] final(s)@[i] == v;
// sum of the strictly positive entries among the first k
pub open spec fn pos_sum(s: Seq<f64>, k: int) -> real decreases k {
    if k <= 0 { 0real } else { pos_sum(s, k - 1) + (if rv(s[k - 1]) > 0real { rv(s[k - 1]) } else { 0real }) }
}
pub open spec fn is_argmax(s: Seq<f64>, ind: int) -> bool { 0 <= ind < s.len() && forall|j: int| 0 <= j < s.len() ==> rv(#[trigger] s[j]) <= rv(s[ind]) }
pub open spec fn is_argmin(s: Seq<f64>, ind: int) -> bool { 0 <= ind < s.len() && forall|j: int| 0 <= j < s.len() ==> rv(#[trigger] s[j]) >= rv(s[ind]) }
pub open spec fn one_hot(s: Seq<f64>, ind: int) -> bool { forall|j: int| 0 <= j < s.len() ==> rv(#[trigger] s[j]) == (if j == ind { 1real } else { 0real }) }
// R6 (iterator chains with closures are outside this Verus; the bounded Kani harnesses run the real chains)
#[verifier::external_body]
pub fn __abs_pos_sum(cum_reg: &mut [f64]) -> (r: f64)
    ensures rv(r) == pos_sum(old(cum_reg)@, old(cum_reg)@.len() as int), final(cum_reg)@ == old(cum_reg)@,
{ unimplemented!() }
#[verifier::external_body]
pub fn __abs_argmax(cum_reg: &mut [f64]) -> (r: usize)
    requires old(cum_reg)@.len() >= 1,
    ensures is_argmax(old(cum_reg)@, r as int), final(cum_reg)@ == old(cum_reg)@,
{ unimplemented!() }
#[verifier::external_body]
pub fn __abs_argmin(cum_reg: &mut [f64]) -> (r: usize)
    requires old(cum_reg)@.len() >= 1,
    ensures is_argmin(old(cum_reg)@, r as int), final(cum_reg)@ == old(cum_reg)@,
{ unimplemented!() }
// softmax fallback (exp chains): abstracted as a whole, decided (bounded, bit-precise, exp interval
// model) by the Kani harnesses c05_regret_match_softmax_*
pub uninterp spec fn softmax_rel(w: f64, regs: Seq<f64>, out: Seq<f64>) -> bool;
#[verifier::external_body]
pub fn __abs_softmax(w: f64, cum_reg: &mut [f64], strat: &mut [f64])
    ensures final(cum_reg)@ == old(cum_reg)@, final(strat)@.len() == old(strat)@.len(), softmax_rel(w, old(cum_reg)@, final(strat)@),
{ unimplemented!() }
pub proof fn lemma_pos_div(a: Seq<f64>, b: Seq<f64>, t: real, k: int)
    requires 0 <= k <= a.len(), a.len() == b.len(), t != 0real,
        forall|i: int| 0 <= i < a.len() ==> rv(#[trigger] b[i]) == (if rv(a[i]) > 0real { rv(a[i]) / t } else { 0real }),
    ensures rsum(b, k) == pos_sum(a, k) / t,
    decreases k
{
    if k <= 0 {
        assert(0real / t == 0real) by(nonlinear_arith) requires t != 0real;
    } else {
        lemma_pos_div(a, b, t, k - 1);
        assert(rsum(b, k) == rsum(b, k - 1) + rv(b[k - 1]));
        let x = if rv(a[k - 1]) > 0real { rv(a[k - 1]) } else { 0real };
        assert(rv(b[k - 1]) == x / t) by {
            assert(0real / t == 0real) by(nonlinear_arith) requires t != 0real;
        }
        assert(pos_sum(a, k - 1) / t + x / t == (pos_sum(a, k - 1) + x) / t) by(nonlinear_arith) requires t != 0real;
    }
}
pub proof fn lemma_one_hot_sum(s: Seq<f64>, ind: int, k: int)
    requires one_hot(s, ind), 0 <= ind < s.len(), 0 <= k <= s.len(),
    ensures rsum(s, k) == (if ind < k { 1real } else { 0real }),
    decreases k
{
    if k > 0 { lemma_one_hot_sum(s, ind, k - 1); assert(rv(s[k - 1]) == (if k - 1 == ind { 1real } else { 0real })); }
}
pub open spec fn is_uniform(s: Seq<f64>) -> bool { forall|j: int| 0 <= j < s.len() ==> rv(#[trigger] s[j]) == 1real / (s.len() as real) }
pub broadcast proof fn lemma_one_hot_total(s: Seq<f64>, ind: int)
    requires #[trigger] one_hot(s, ind), 0 <= ind < s.len(),
    ensures rsum(s, s.len() as int) == 1real,
{ lemma_one_hot_sum(s, ind, s.len() as int); }
pub broadcast proof fn lemma_uniform_total(s: Seq<f64>)
    requires #[trigger] is_uniform(s), s.len() >= 1,
    ensures rsum(s, s.len() as int) == 1real,
{
    lemma_uniform_sum(s, s.len() as int, s.len() as int);
    let d = s.len() as real;
    assert(d / d == 1real) by(nonlinear_arith) requires d != 0real;
}
pub proof fn lemma_uniform_sum(s: Seq<f64>, n: int, k: int)
    requires n == s.len(), n >= 1, 0 <= k <= n, forall|j: int| 0 <= j < n ==> rv(#[trigger] s[j]) == 1real / (n as real),
    ensures rsum(s, k) == (k as real) / (n as real),
    decreases k
{
    let d = n as real;
    if k <= 0 {
        assert(0real / d == 0real) by(nonlinear_arith) requires d != 0real;
    } else {
        lemma_uniform_sum(s, n, k - 1);
        assert(((k - 1) as real) / d + 1real / d == (k as real) / d) by(nonlinear_arith) requires d != 0real;
    }
}
"""
UNIT = dict(
    id="c08_regret_match",
    prelude=["floats.rs", "ideal.rs", "iter_ext.rs", "iter_ext_ideal.rs"],
    canary_use="broadcast use fl; broadcast use ideal; broadcast use ideal_casts; ax_obeys(); ax_rv_lits(); ax_rv_inf();",
    expect=[("src/solve/data.rs", r"impl<'a> IntoFloatsMut<'a> for &'a mut \[f64\] \{\s*type Floats = slice::IterMut<'a, f64>;\s*fn into_floats_mut\(self\) -> Self::Floats \{\s*self\.iter_mut\(\)\s*\}\s*\}")],
    assumptions=[
        "idealised-real float mode (NaN / overflow / rounding are decided bit-precisely by the bounded Kani harnesses c08_regret_match_* and c05_regret_match_softmax_*)",
        "TYPE-SUBST: the generic `R: IntoFloatsMut` is instantiated at [f64], whose into_floats_mut is `self.iter_mut()` (checked by an `expect` pattern); the AtomicF64 instance maps get_mut over the cells (same values)",
        "R6: the four iterator chains with closures (`map/filter/sum` of the positive regrets, `enumerate().max_by / min_by(partial_cmp)`) are abstracted with ASSUMED contracts: sum of the positive entries, an index of a maximal / minimal entry; the softmax fallback (exp chains, fn-pointer) is abstracted as a whole",
        "for-pattern `(&mut reg, val)` over `iter_mut().zip(..)`: `&mut reg` binds a copy of the element (Rust semantics for Copy types), written as `(reg__r, val)` + `let reg = *reg__r;` at the body start",
        "struct invariant cum_regret.len() == strat.len() >= 1 (RegretInfoset::new), assumed at entry",
        "the special values of no_positive (+inf, 0, -inf) are distinct reals in the idealised mode (axiom ax_rv_inf)",
    ],
    items=[
        dict(raw=open(P + "rsum_lemmas.rs").read()),
        dict(raw="use vstd::std_specs::iter::{zip_iter_snd, zip_iter_fst};\n" + SPECS + """
// idealised: +inf / -inf denote values different from every finite number used as a selector
pub axiom fn ax_rv_inf() ensures rv(finf()) > 0real, rv(fneginf()) < 0real, rv(finf()) != rv(fneginf());
"""),
        dict(file="src/solve/data.rs", path="struct RegretParams", attrs="#[derive(Clone, Copy)]"),
        dict(file="src/solve/data.rs", path="impl RegretParams", members=[
            dict(path="fn regret_match", vis="pub ", obligation="C08.V.regret_match", n_loops=2,
                 f64_fields=["no_positive"],
                 rules=["R3", "R1", "R9", "R12", "R13", "R10"],
                 sig_subst=[(r"fn regret_match<R: \?Sized>\(&self, cum_reg: &mut R, strat: &mut \[f64\]\)\s*where\s*for<'a> &'a mut R: IntoFloatsMut<'a>,",
                             "fn regret_match(&self, cum_reg: &mut [f64], strat: &mut [f64])", "TYPE-SUBST R := [f64]")],
                 table=[(r"^let norm: f64 = cum_reg \.into_floats_mut\(\) \.map\(\|&mut v\| v\) \.filter\(\|v\| [^|;]*\) \.sum\(\);$", ("abstract", "let norm: f64 = __abs_pos_sum(cum_reg);"))],
                 body_subst=[(r"\(&mut reg, val\)(?= in cum_reg\.into_floats_mut\(\)\.zip\(strat\.iter_mut\(\)\) \{\s*\*val = if )", "(reg__r, val)", "for-pattern `&mut reg` (copy of a Copy element)"),
                             (r"(?<=\(&mut reg, val\) in )cum_reg\.into_floats_mut\(\)(?=\.zip\(strat\.iter_mut\(\)\) \{\s*\*val = if )", "cum_reg.iter_mut()", "TYPE-SUBST <&mut [f64] as IntoFloatsMut>::into_floats_mut is iter_mut"),
                             (r"let \(ind, _\) = cum_reg\s*\.into_floats_mut\(\)\s*\.enumerate\(\)\s*\.max_by\(\|\(_, l\), \(_, r\)\| l\.partial_cmp\(r\)\.unwrap\(\)\)\s*\.unwrap\(\);", "let ind = __abs_argmax(cum_reg);", "R6 argmax chain"),
                             (r"let \(ind, _\) = cum_reg\s*\.into_floats_mut\(\)\s*\.enumerate\(\)\s*\.min_by\(\|\(_, l\), \(_, r\)\| l\.partial_cmp\(r\)\.unwrap\(\)\)\s*\.unwrap\(\);", "let ind = __abs_argmin(cum_reg);", "R6 argmin chain"),
                             (r"strat\[ind\] = 1\.0;", "strat[ind] = 1.0; proof { assert(one_hot(strat@, ind as int)); }", "HINT (a checked assert naming the one-hot vector, after the statement that completes it)"),
                             (r"(?s)\} else \{\s*(?://[^\n]*\n\s*)*let extremum: fn\(f64, f64\) -> f64 = .*\*val = \(\(reg - max\) \* self\.no_positive\)\.exp\(\) / norm;\s*\}\s*\}\s*$", "} else {\n __abs_softmax(self.no_positive, cum_reg, strat);\n }\n", "R6 softmax fallback abstracted as a whole")],
                 contract="""ensures
    final(cum_reg)@ == old(cum_reg)@,
    final(strat)@.len() == old(strat)@.len(),
    // some regret is positive: sigma_a = R_a^+ / sum_b R_b^+ (a distribution)
    pos_sum(old(cum_reg)@, old(cum_reg)@.len() as int) > 0real ==>
        (forall|i: int| 0 <= i < old(strat)@.len() ==> rv(#[trigger] final(strat)@[i]) ==
            (if rv(old(cum_reg)@[i]) > 0real { rv(old(cum_reg)@[i]) / pos_sum(old(cum_reg)@, old(cum_reg)@.len() as int) } else { 0real }))
        && rsum(final(strat)@, old(strat)@.len() as int) == 1real, // @ob C08.V.regret_match.positive
    // no positive regret: the documented fallbacks
    !(pos_sum(old(cum_reg)@, old(cum_reg)@.len() as int) > 0real) && feq(self.no_positive, finf()) ==>
        (exists|ind: int| #[trigger] is_argmax(old(cum_reg)@, ind) && one_hot(final(strat)@, ind) && rsum(final(strat)@, old(strat)@.len() as int) == 1real), // @ob C08.V.regret_match.fallback_argmax
    !(pos_sum(old(cum_reg)@, old(cum_reg)@.len() as int) > 0real) && !feq(self.no_positive, finf()) && feq(self.no_positive, 0.0f64) ==>
        is_uniform(final(strat)@) && rsum(final(strat)@, old(strat)@.len() as int) == 1real, // @ob C08.V.regret_match.fallback_uniform
    !(pos_sum(old(cum_reg)@, old(cum_reg)@.len() as int) > 0real) && !feq(self.no_positive, finf()) && !feq(self.no_positive, 0.0f64) && feq(self.no_positive, fneginf()) ==>
        (exists|ind: int| #[trigger] is_argmin(old(cum_reg)@, ind) && one_hot(final(strat)@, ind) && rsum(final(strat)@, old(strat)@.len() as int) == 1real), // @ob C08.V.regret_match.fallback_argmin""",
                 entry="""broadcast use fl; broadcast use ideal; broadcast use ideal_casts; broadcast use lemma_one_hot_total; broadcast use lemma_uniform_total;
proof { ax_obeys(); ax_rv_lits(); ax_rv_inf(); assume(cum_reg@.len() == strat@.len() && strat@.len() >= 1); }
let ghost c0 = cum_reg@;
let ghost n = strat@.len();""",
                 loops={0: dict(kind="for", binder="it",
                                head="""invariant
    it.snapshot@.remaining().len() == n, n == c0.len(), 0 <= it.index@ <= n,
    zip_iter_snd(it.snapshot@).remaining().len() == n,
    zip_iter_fst(it.snapshot@).remaining().len() == n,
    forall|i: int| 0 <= i < n ==> (it.snapshot@.remaining()[i]).1 == #[trigger] zip_iter_snd(it.snapshot@).remaining()[i],
    forall|i: int| 0 <= i < n ==> (it.snapshot@.remaining()[i]).0 == #[trigger] zip_iter_fst(it.snapshot@).remaining()[i],
    forall|i: int| 0 <= i < n ==> *(#[trigger] it.snapshot@.remaining()[i]).0 == c0[i],
    rv(norm) == pos_sum(c0, n as int), rv(norm) > 0real,
    forall|i: int| 0 <= i < it.index@ ==> rv(*final((#[trigger] it.snapshot@.remaining()[i]).1)) ==
        (if rv(c0[i]) > 0real { rv(c0[i]) / rv(norm) } else { 0real }),
    forall|i: int| 0 <= i < it.index@ ==> *final((#[trigger] it.snapshot@.remaining()[i]).0) == c0[i],
ensures
    forall|i: int| 0 <= i < n ==> rv(*final(#[trigger] zip_iter_snd(it.snapshot@).remaining()[i])) ==
        (if rv(c0[i]) > 0real { rv(c0[i]) / rv(norm) } else { 0real }),
    forall|i: int| 0 <= i < n ==> *final(#[trigger] zip_iter_fst(it.snapshot@).remaining()[i]) == c0[i],""",
                                body_start="let reg = *reg__r;\nbroadcast use fl; broadcast use ideal;\nproof { ax_obeys(); ax_rv_lits(); assert(0real / rv(norm) == 0real) by(nonlinear_arith) requires rv(norm) != 0real; }",
                                after="""proof {
    assert(cum_reg@ =~= c0);
    lemma_pos_div(c0, strat@, rv(norm), n as int);
    assert(pos_sum(c0, n as int) / rv(norm) == 1real) by(nonlinear_arith) requires rv(norm) == pos_sum(c0, n as int), rv(norm) > 0real;
}""")}),
        ]),
        # the predicate handed to the abstracted norm chain: what is summed into the normaliser
        dict(raw="""pub axiom fn ax_ref_cmp_f64()
    ensures <&f64 as PartialOrdSpec<&f64>>::obeys_partial_cmp_spec(),
        forall|a: &f64, b: &f64| #[trigger] <&f64 as PartialOrdSpec<&f64>>::partial_cmp_spec(&a, &b) == fcmp(*a, *b);
"""),
        dict(file="src/solve/data.rs", path="impl RegretParams / fn regret_match", closure=0, expr_closure=True,
             header_re=r"^\|v\|$", as_fn="regret_match__counts_towards_norm",
             params="v: &f64", ret="out", ret_type="bool",
             obligation="C08.V.regret_match.norm_over_positive", rules=[],
             entry="broadcast use fl;\nproof { ax_obeys(); ax_ref_cmp_f64(); }",
             contract="""ensures
    // the normaliser sums every strictly positive regret and nothing negative (whether zeros are
    // included makes no difference to a sum)
    fgt(*v, 0.0f64) ==> out, // @ob C08.V.regret_match.norm_over_positive
    out ==> fge(*v, 0.0f64), // @ob C08.V.regret_match.norm_over_positive"""),
    ],
)
