UNIT = dict(
    id="c02_cum_regret",
    prelude=["floats.rs", "ideal.rs"],
    canary_use="broadcast use fl; broadcast use ideal; broadcast use ideal_casts; ax_obeys(); ax_rv_lits();",
    expect=[("src/solve/data.rs", r"impl<'a> IntoFloatsMut<'a> for &'a mut \[f64\] \{\s*type Floats = slice::IterMut<'a, f64>;\s*fn into_floats_mut\(self\) -> Self::Floats \{\s*self\.iter_mut\(\)\s*\}\s*\}")],
    assumptions=[
        "idealised-real float mode; `u64 as f64` exact (bit-level facts -- NaN-free, >= 0, finite -- are the bounded Kani harnesses c02_cum_regret_*)",
        "TYPE-SUBST R := [f64]",
        "R6: the chain `cum_reg.into_floats_mut().map(|&mut r| r).reduce(f64::max)` is abstracted with the ASSUMED contract `the largest entry, None for an empty slice` (std fold semantics; closures in iterator chains are outside this Verus)",
    ],
    items=[
        dict(raw="""pub open spec fn is_max_of(s: Seq<f64>, m: f64) -> bool {
    (exists|i: int| 0 <= i < s.len() && #[trigger] s[i] == m) && forall|j: int| 0 <= j < s.len() ==> rv(#[trigger] s[j]) <= rv(m)
}
#[verifier::external_body]
pub fn __abs_reduce_max(cum_reg: &mut [f64]) -> (r: Option<f64>)
    ensures final(cum_reg)@ == old(cum_reg)@,
        old(cum_reg)@.len() == 0 ==> r is None,
        old(cum_reg)@.len() > 0 ==> r is Some && is_max_of(old(cum_reg)@, r->0),
{ unimplemented!() }
pub open spec fn rmax(a: real, b: real) -> real { if a >= b { a } else { b } }
pub open spec fn rdiv(x: real, d: real) -> real { x / d }
pub broadcast proof fn lemma_rdiv_nonneg(x: real, d: real)
    requires x >= 0real, d > 0real,
    ensures #[trigger] rdiv(x, d) >= 0real, x == 0real ==> rdiv(x, d) == 0real,
{
    assert(x / d >= 0real) by(nonlinear_arith) requires x >= 0real, d > 0real;
    if x == 0real { assert(0real / d == 0real) by(nonlinear_arith) requires d > 0real; }
}
"""),
        dict(file="src/solve/data.rs", path="struct RegretParams", attrs="#[derive(Clone, Copy)]"),
        dict(file="src/solve/data.rs", path="impl RegretParams", members=[
            dict(path="fn cum_regret", vis="pub ", obligation="C02.V.cum_regret.formula",
                 rules=["R12"],
                 sig_subst=[(r"fn cum_regret<R: \?Sized>\(&self, it: u64, cum_reg: &mut R\) -> f64\s*where\s*for<'a> &'a mut R: IntoFloatsMut<'a>,",
                             "fn cum_regret(&self, it: u64, cum_reg: &mut [f64]) -> (r: f64)", "TYPE-SUBST R := [f64] (+ named return value)")],
                 body_subst=[(r"cum_reg\s*\.into_floats_mut\(\)\s*\.map\(\|&mut r\| r\)\s*\.reduce\(f64::max\)", "__abs_reduce_max(cum_reg)", "R6 max chain")],
                 contract="""requires
    it >= 1,
ensures
    final(cum_reg)@ == old(cum_reg)@,
    // the per-infoset bound of the CFR theorem: 2 max(max_a R_a, 0) / T -- never negative, and 0 for an
    // infoset without regrets
    old(cum_reg)@.len() == 0 ==> rv(r) == 0real, // @ob C02.V.cum_regret.formula
    forall|m: f64| is_max_of(old(cum_reg)@, m) ==> rv(r) == rdiv(2real * rmax(rv(m), 0real), it as real), // @ob C02.V.cum_regret.formula
    rv(r) >= 0real, // @ob C02.V.cum_regret.nonneg""",
                 entry="""broadcast use fl; broadcast use ideal; broadcast use ideal_casts; broadcast use lemma_rdiv_nonneg;
proof {
    ax_obeys(); ax_rv_lits();
    assert(rdiv(0real, it as real) == 0real);
    assert(forall|m: f64| rdiv(2real * rmax(rv(m), 0real), it as real) >= 0real) by {
        assert forall|m: f64| #[trigger] rdiv(2real * rmax(rv(m), 0real), it as real) >= 0real by { }
    }
}"""),
        ]),
    ],
)
