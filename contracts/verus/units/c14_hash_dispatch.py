import importlib.util, os
_p = os.path.join(os.path.dirname(__file__), "c14_hash_validate.py")
_s = importlib.util.spec_from_file_location("unit_c14_hash_validate_for_dispatch", _p); _m = importlib.util.module_from_spec(_s); _s.loader.exec_module(_m)
STUBS = _m.STUBS   # Borrow / HashMap declarations with their assumed contracts: the text of c14_hash_validate
EXTRA = """
impl<K, V> HashMap<K, V> {
    // HashMap::get_mut: a mutable reference to the value stored under an equal key, if any
    #[verifier::external_body]
    pub fn get_mut(&mut self, k: &K) -> (r: Option<&mut V>)
        ensures match r {
            Some(v) => old(self)@.contains_key(*k) && *v == old(self)@[*k] && final(self)@ == old(self)@.insert(*k, *final(v)),
            None => !old(self)@.contains_key(*k) && final(self)@ == old(self)@,
        },
    { unimplemented!() }
}
// the two per-(action, weight) loops, each an uninterpreted function of what it is given; their bodies are
// under contract in c14_hash_validate (strat_into_box__multi_entry / __single_entry)
// ---- scanning path: first position in the infoset table / the single-action table holding an equal
// infoset (the `iter().enumerate().find(..)` chains, std code)
pub struct InfoRow<I, A> { pub infoset: I, pub actions: Box<[A]> }
pub open spec fn first_info<I, A>(infos: Seq<InfoRow<I, A>>, key: I, i: int) -> bool {
    0 <= i < infos.len() && infos[i].infoset == key && forall|j: int| 0 <= j < i ==> (#[trigger] infos[j]).infoset != key
}
pub open spec fn first_single<I, A>(singles: Seq<(I, A)>, key: I, i: int) -> bool {
    0 <= i < singles.len() && singles[i].0 == key && forall|j: int| 0 <= j < i ==> (#[trigger] singles[j]).0 != key
}
#[verifier::external_body]
pub fn __abs_find_info<'a, I, A>(infos: &'a [InfoRow<I, A>], infoset: &I) -> (r: Option<(usize, &'a InfoRow<I, A>)>)
    ensures match r { Some(p) => first_info(infos@, *infoset, p.0 as int) && *p.1 == infos@[p.0 as int], None => forall|j: int| 0 <= j < infos@.len() ==> (#[trigger] infos@[j]).infoset != *infoset },
{ unimplemented!() }
#[verifier::external_body]
pub fn __abs_find_single<'a, I, A>(singles: &'a [(I, A)], infoset: &I) -> (r: Option<(usize, &'a (I, A))>)
    ensures match r { Some(p) => first_single(singles@, *infoset, p.0 as int) && *p.1 == singles@[p.0 as int], None => forall|j: int| 0 <= j < singles@.len() ==> (#[trigger] singles@[j]).0 != *infoset },
{ unimplemented!() }
pub uninterp spec fn scan_multi_spec<ACTS, I, A>(actions: ACTS, info: InfoRow<I, A>, info_ind: usize, dense: Seq<f64>) -> Result<Seq<f64>, StratError>;
pub uninterp spec fn scan_single_spec<ACTS, A>(actions: ACTS, act: A, seen: bool) -> Result<bool, StratError>;
#[verifier::external_body]
pub fn __scan_entries_multi<ACTS, I, A>(actions: ACTS, info: &InfoRow<I, A>, info_ind: usize, dense: &mut Box<[f64]>) -> (r: Result<(), StratError>)
    ensures match scan_multi_spec(actions, *info, info_ind, old(dense)@) { Ok(d) => r is Ok && final(dense)@ == d, Err(e) => r == Err::<(), StratError>(e) },
{ unimplemented!() }
#[verifier::external_body]
pub fn __scan_entries_single<ACTS, A>(actions: ACTS, act: &A, ind: usize, seen_singles: &mut Box<[bool]>) -> (r: Result<(), StratError>)
    requires ind < old(seen_singles)@.len(),
    ensures match scan_single_spec(actions, *act, old(seen_singles)@[ind as int]) { Ok(s) => r is Ok && final(seen_singles)@ == old(seen_singles)@.update(ind as int, s), Err(e) => r == Err::<(), StratError>(e) },
{ unimplemented!() }
pub uninterp spec fn multi_spec<ACTS, A>(actions: ACTS, action_inds: Map<A, usize>, dense: Seq<f64>) -> Result<Seq<f64>, StratError>;
pub uninterp spec fn single_spec<ACTS, A>(actions: ACTS, act: &A, seen: bool) -> Result<bool, StratError>;
#[verifier::external_body]
pub fn __entries_multi<ACTS, A>(actions: ACTS, action_inds: &HashMap<A, usize>, dense: &mut Box<[f64]>) -> (r: Result<(), StratError>)
    ensures match multi_spec(actions, action_inds@, old(dense)@) { Ok(d) => r is Ok && final(dense)@ == d, Err(e) => r == Err::<(), StratError>(e) },
{ unimplemented!() }
#[verifier::external_body]
pub fn __entries_single<ACTS, A>(actions: ACTS, act: &mut &A, seen: &mut bool) -> (r: Result<(), StratError>)
    ensures *final(act) == *old(act),
        match single_spec(actions, *old(act), *old(seen)) { Ok(s) => r is Ok && *final(seen) == s, Err(e) => r == Err::<(), StratError>(e) },
{ unimplemented!() }
"""
UNIT = dict(
    id="c14_hash_dispatch",
    prelude=["floats.rs"],
    canary_use="broadcast use fl; ax_obeys();",
    assumptions=[
        "BLOCK: the unit is the body of the loop over the imported (infoset, weights) entries of Game::strat_into_box; what the loop iterates over (the caller's iterator) is not part of it",
        "the two inner per-(action, weight) loops are replaced by calls that are uninterpreted functions of exactly what the loops are given (their bodies: c14_hash_validate)",
        "TYPE-SUBST: the table of single-action infosets, HashMap<&I, (&A, bool)>, is declared with key type I (a map keyed by references compares and hashes the pointees: Borrow<I> for &I)",
        "std::borrow::Borrow and HashMap::{get, get_mut} are local declarations with assumed contracts (key equality of the map is equality of the abstract keys)",
    ],
    items=[
        dict(file="src/error.rs", path="enum StratError", attrs="#[derive(PartialEq, Eq)]"),
        dict(raw=STUBS + EXTRA),
        dict(file="src/lib.rs", path="impl Game / fn strat_into_box", loop=2, n_loops=7,
             header_re=r"^for \(binfoset, actions\) in strat$",
             as_fn="strat_into_box__entry", generics="<'x, I, A, BI: Borrow<I>, ACTS>",
             params="binfoset: BI, actions: ACTS, inds: &HashMap<I, HashMap<A, usize>>, singles: &mut HashMap<I, (&'x A, bool)>, dense: &mut Box<[f64]>",
             ret="out", ret_type="Result<(), StratError>", exit="Ok(())", allow_return=True, continue_as="return Ok(())",
             obligation="C14.V.hash_import.entry_dispatch",
             rules=[],
             body_subst=[
                 (r"(?s)for \(baction, bprob\) in actions \{(?:(?!for \(baction).)*?\}(?=\s*\}\s*else if let )",
                  "__entries_multi(actions, action_inds, dense)?;", "R6 per-entry loop of a multi-action infoset (c14_hash_validate: strat_into_box__multi_entry)"),
                 (r"(?s)for \(baction, bprob\) in actions \{(?:(?!for \(baction).)*?\}(?=\s*\}\s*else \{)",
                  "__entries_single(actions, act, seen)?;", "R6 per-entry loop of a single-action infoset (c14_hash_validate: strat_into_box__single_entry)"),
             ],
             contract="""ensures
    // an entry for a multi-action infoset is validated against THAT infoset's action table and written
    // into the dense vector; the single-action table is not touched
    inds@.contains_key(binfoset.bview()) ==> final(singles)@ == old(singles)@
        && (match multi_spec(actions, inds@[binfoset.bview()]@, old(dense)@) { Ok(d) => out is Ok && final(dense)@ == d, Err(e) => out == Err::<(), StratError>(e) }), // @ob C14.V.hash_import.entry_dispatch
    // otherwise an entry for a single-action infoset is validated against that infoset's only action,
    // only its own `seen` mark may change, and the dense vector is not touched
    !inds@.contains_key(binfoset.bview()) && old(singles)@.contains_key(binfoset.bview()) ==>
        (match single_spec(actions, old(singles)@[binfoset.bview()].0, old(singles)@[binfoset.bview()].1) {
            Ok(s) => out is Ok && final(dense)@ == old(dense)@ && final(singles)@ == old(singles)@.insert(binfoset.bview(), (old(singles)@[binfoset.bview()].0, s)),
            Err(e) => out == Err::<(), StratError>(e),
        }), // @ob C14.V.hash_import.entry_dispatch
    // an infoset the game does not have is rejected
    !inds@.contains_key(binfoset.bview()) && !old(singles)@.contains_key(binfoset.bview()) ==> out == Err::<(), StratError>(StratError::InvalidInfoset), // @ob C14.V.hash_import.rejects_unknown_infoset"""),
        dict(file="src/lib.rs", path="impl Game / fn strat_into_box_slow", loop=1, n_loops=6,
             header_re=r"^for \(binfoset, actions\) in strat$",
             as_fn="strat_into_box_slow__entry", generics="<I, A, BI: Borrow<I>, ACTS>",
             params="binfoset: BI, actions: ACTS, infos: &[InfoRow<I, A>], action_inds: &Vec<usize>, singles: &[(I, A)], seen_singles: &mut Box<[bool]>, dense: &mut Box<[f64]>",
             ret="out", ret_type="Result<(), StratError>", exit="Ok(())", allow_return=True, continue_as="return Ok(())",
             obligation="C14.V.scan_import.entry_dispatch",
             rules=[],
             body_subst=[
                 (r"infos\s*\.iter\(\)\s*\.enumerate\(\)\s*\.find\(\|\(_, info\)\| &info\.infoset == infoset\)", "__abs_find_info(infos, infoset)", "R6 first row of the infoset table with an equal infoset (enumerate/find chain)"),
                 (r"singles\s*\.iter\(\)\s*\.enumerate\(\)\s*\.find\(\|\(_, \(info, _\)\)\| info == infoset\)", "__abs_find_single(singles, infoset)", "R6 first row of the single-action table with an equal infoset (enumerate/find chain)"),
                 (r"(?s)for \(baction, bprob\) in actions \{(?:(?!for \(baction).)*?\}(?=\s*\}\s*else if let )",
                  "__scan_entries_multi(actions, info, info_ind, dense)?;", "R6 per-entry loop of a multi-action infoset (c14_hash_validate: strat_into_box_slow__multi_entry)"),
                 (r"(?s)for \(baction, bprob\) in actions \{(?:(?!for \(baction).)*?\}(?=\s*\}\s*else \{)",
                  "__scan_entries_single(actions, act, ind, seen_singles)?;", "R6 per-entry loop of a single-action infoset (scan path block of c14_hash_validate)"),
             ],
             contract="""requires
    action_inds@.len() == infos@.len(), old(seen_singles)@.len() == singles@.len(),
ensures
    // the scanning importer dispatches an entry exactly like the hashing one: first the multi-action
    // infosets (the entry is validated against THAT row and its offset), then the single-action ones
    // (only that infoset's own mark may change), otherwise the infoset is rejected
    forall|i: int| first_info(infos@, binfoset.bview(), i) ==> final(seen_singles)@ == old(seen_singles)@
        && (match scan_multi_spec(actions, #[trigger] infos@[i], action_inds@[i], old(dense)@) { Ok(d) => out is Ok && final(dense)@ == d, Err(e) => out == Err::<(), StratError>(e) }), // @ob C14.V.scan_import.entry_dispatch
    (forall|j: int| 0 <= j < infos@.len() ==> (#[trigger] infos@[j]).infoset != binfoset.bview()) ==>
        forall|i: int| first_single(singles@, binfoset.bview(), i) ==>
            (match scan_single_spec(actions, (#[trigger] singles@[i]).1, old(seen_singles)@[i]) {
                Ok(s) => out is Ok && final(dense)@ == old(dense)@ && final(seen_singles)@ == old(seen_singles)@.update(i, s),
                Err(e) => out == Err::<(), StratError>(e),
            }), // @ob C14.V.scan_import.entry_dispatch
    (forall|j: int| 0 <= j < infos@.len() ==> (#[trigger] infos@[j]).infoset != binfoset.bview())
        && (forall|j: int| 0 <= j < singles@.len() ==> (#[trigger] singles@[j]).0 != binfoset.bview()) ==> out == Err::<(), StratError>(StratError::InvalidInfoset), // @ob C14.V.scan_import.rejects_unknown_infoset"""),
    ],
)
