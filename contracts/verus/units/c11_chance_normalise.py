P = __file__.rsplit("/units/", 1)[0] + "/prelude/"
UNIT = dict(
    id="c11_chance_normalise",
    prelude=["floats.rs", "ideal.rs", "iter_ext.rs", "iter_ext_ideal.rs"],
    canary_use="broadcast use fl; broadcast use ideal; ax_obeys(); ax_rv_lits(); ax_rv_sum_init();",
    assumptions=[
        "idealised-real float mode (a total that overflows is outside it)",
        "BLOCK: the multi-outcome arm of the chance branch of Game::init_recurse: renormalisation of the collected weights, interning of the infoset (abstracted: its two arms are under contract in c11_init_recurse / c11_compact), construction of the node",
        "R7: `probs.iter().sum()` -> `__sum(..)`; at least two outcomes with positive finite weights were collected (the loop in front: c11_init_recurse), so the total is positive",
    ],
    items=[
        dict(raw=open(P + "rsum_lemmas.rs").read()),
        dict(raw="""#[verifier::external_body] pub struct Node { }
#[verifier::external_body] pub struct CT { }
pub struct Chance { pub outcomes: Box<[Node]>, pub infoset: usize }
impl Chance {
    // (c11_constructors)
    #[verifier::external_body]
    pub fn new(data: Vec<Node>, infoset: usize) -> (r: Chance) ensures r.outcomes@ == data@, r.infoset == infoset { unimplemented!() }
}
pub enum NodeK { Chance(Chance) }
#[derive(Clone, Copy)]
pub struct GameError { }
pub uninterp spec fn intern_spec<CI>(info: Option<CI>, probs: Seq<f64>) -> Result<usize, GameError>;
#[verifier::external_body]
pub fn __abs_intern_chance<CI>(chance_infosets: &mut CT, info: Option<CI>, probs: Vec<f64>) -> (r: Result<usize, GameError>)
    ensures r == intern_spec(info, probs@),
{ unimplemented!() }
// the probabilities recorded for the infoset: every weight divided by the total of the node's weights
pub open spec fn normalised(w: Seq<f64>, p: Seq<f64>) -> bool {
    p.len() == w.len() && forall|i: int| 0 <= i < w.len() ==> rv(#[trigger] p[i]) == rv(w[i]) / rsum(w, w.len() as int)
}
"""),
        dict(file="src/lib.rs", path="impl Game / fn init_recurse", arm_re=r"_ => \{(?=\s*(?://[^\n]*\n\s*)*let total: f64 = probs\.iter\(\)\.sum\(\);)", arm_count=1,
             as_fn="init_recurse__chance_node", generics="<CI>",
             params="mut probs: Vec<f64>, outcomes: Vec<Node>, info: Option<CI>, chance_infosets: &mut CT",
             ret="out", ret_type="Result<NodeK, GameError>", allow_return=True,
             obligation="C11.V.init_recurse.chance_probabilities_normalised",
             rules=["R1", "R7"],
             table=[(r"^let ind = match chance_infosets\.entry\(info\) \{.*\};$", ("abstract_exits", "let ind = __abs_intern_chance(chance_infosets, info, probs)?;"))],
             body_subst=[(r"(?<=for prob in )&mut probs", "probs.iter_mut()", "TYPE-SUBST <&mut Vec<f64> as IntoIterator>::into_iter is iter_mut (std)"),
                         (r"Ok\(Node::Chance\(Chance::new\(outcomes, ind\)\)\)", "Ok(NodeK::Chance(Chance::new(outcomes, ind)))", "R0 the node enum restricted to the variant built here")],
             contract="""requires
    rsum(probs@, probs@.len() as int) != 0real,
ensures
    // the infoset is interned with the weights divided by their total (they sum to one), the node keeps
    // its outcomes in order and carries the interned index
    exists|p: Seq<f64>| #[trigger] normalised(probs@, p) && rsum(p, p.len() as int) == 1real
        && match intern_spec(info, p) {
            Ok(ind) => out is Ok && out->Ok_0 == NodeK::Chance(Chance { outcomes: out->Ok_0->Chance_0.outcomes, infoset: ind }) && out->Ok_0->Chance_0.outcomes@ == outcomes@,
            Err(e) => out is Err,
        }, // @ob C11.V.init_recurse.chance_probabilities_normalised""",
             entry="""broadcast use fl; broadcast use ideal;
proof { ax_obeys(); ax_rv_lits(); ax_rv_sum_init(); }
let ghost w0 = probs@;
let ghost n = probs@.len();
proof { lemma_fsum_rsum(w0, n as int); }
broadcast use lemma_fsum_ref_is_fsum;""",
             loops={0: dict(kind="for", binder="it",
                            before="proof { assert(total == fsum(w0, n as int)); }",
                            head="""invariant
    it.snapshot@.remaining().len() == n, 0 <= it.index@ <= n,
    forall|i: int| 0 <= i < n ==> *(#[trigger] it.snapshot@.remaining()[i]) == w0[i],
    rv(total) == rsum(w0, n as int), rv(total) != 0real,
    forall|i: int| 0 <= i < it.index@ ==> rv(*final(#[trigger] it.snapshot@.remaining()[i])) == rv(w0[i]) / rv(total),
ensures
    forall|i: int| 0 <= i < n ==> rv(*final(#[trigger] it.snapshot@.remaining()[i])) == rv(w0[i]) / rv(total),""",
                            body_start="broadcast use fl; broadcast use ideal;\nproof { ax_obeys(); ax_rv_lits(); }",
                            after="""proof {
    lemma_rsum_div(w0, probs@, rv(total), n as int);
    assert(rsum(w0, n as int) / rv(total) == 1real) by(nonlinear_arith) requires rv(total) == rsum(w0, n as int), rv(total) != 0real;
    assert(normalised(w0, probs@));
}""")}),
    ],
)
