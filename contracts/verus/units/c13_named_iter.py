OPT_OUT = """
impl<'a, I, A> vstd::std_specs::iter::IteratorSpecImpl for NamedStrategyIter<'a, I, A> {
    open spec fn obeys_prophetic_iter_laws(&self) -> bool { false }
    #[verifier::prophetic]
    open spec fn remaining(&self) -> Seq<Self::Item> { arbitrary() }
    #[verifier::prophetic]
    open spec fn will_return_none(&self) -> bool { arbitrary() }
    open spec fn decrease(&self) -> Option<nat> { None }
    open spec fn peek(&self, i: int) -> Option<Self::Item> { None }
}
pub open spec fn total_actions<I, A>(info: Seq<PlayerInfosetData<I, A>>) -> nat
    decreases info.len()
{
    if info.len() == 0 { 0 } else { info[0].actions@.len() + total_actions(info.drop_first()) }
}
"""
GHOST = """
    // representation invariant: the dense vector is exactly as long as the remaining infosets need
    pub open spec fn wf(self) -> bool {
        self.probs@.len() == total_actions(self.info@)
    }
    // measure: number of items still to be yielded
    #[verifier::prophetic]
    pub open spec fn rem(self) -> int {
        (self.info@.len() + self.singles.remaining().len()) as int
    }
"""
UNFOLD = """proof {
    assume(self.wf()); // representation invariant (constructor + preservation, see unit assumptions)
    assert(self.info@.len() > 0 ==> total_actions(self.info@) == self.info@[0].actions@.len() + total_actions(self.info@.drop_first()));
}"""
UNIT = dict(
    id="c13_named_iter",
    prelude=[],
    assumptions=[
        "representation invariant wf() of NamedStrategyIter assumed at entry of next()/size_hint(); established by new() under its precondition (proved) and preserved by next() (proved); as_named passes the Strategies invariant probs.len() == sum of num_actions (established by solve / strat_into_box*: read, not proved)",
        "slice lengths are at most isize::MAX (Rust guarantee), so info.len() + singles.len() cannot overflow usize",
        "NamedStrategyActionIter and ActionType are extracted as types only; NamedStrategyActionIter::{next,size_hint} (find/map/filter/count chains) are decided by Kani harnesses c13_named_*",
        "std::iter::once / Once<T> are external (no spec needed)",
    ],
    items=[
        dict(raw="""use std::iter::{self, FusedIterator, Once, Zip};
use std::slice;
#[verifier::reject_recursive_types(T)]
#[verifier::external_type_specification]
#[verifier::external_body]
pub struct ExOnce<T>(std::iter::Once<T>);
pub assume_specification<T> [std::iter::once] (x: T) -> std::iter::Once<T>;
"""),
        dict(file="src/lib.rs", path="struct PlayerInfosetData", pub_fields=True),
        dict(file="src/lib.rs", path="impl PlayerInfosetData", members=[
            dict(path="fn num_actions", ret="r", vis="pub ", contract="ensures r == self.actions@.len()")]),
        dict(file="src/lib.rs", path="struct NamedStrategyIter", pub_fields=True,
             attrs="#[verifier::reject_recursive_types(Infoset)]\n#[verifier::reject_recursive_types(Action)]"),
        dict(file="src/lib.rs", path="struct NamedStrategyActionIter", pub_fields=True,
             attrs="#[verifier::reject_recursive_types(Action)]"),
        dict(file="src/lib.rs", path="enum ActionType", attrs="#[verifier::reject_recursive_types(A)]"),
        dict(raw=OPT_OUT),
        dict(file="src/lib.rs", path="impl NamedStrategyIter", ghost_members=GHOST, members=[
            dict(path="fn new", ret="r", vis="pub ", obligation="C13.V.NamedStrategyIter.new",
                 contract="""requires
    probs@.len() == total_actions(info@),
ensures
    r.wf(), r.info@ == info@, r.probs@ == probs@, r.rem() == info@.len() + singles@.len(), // @ob C13.V.NamedStrategyIter.new""")]),
        dict(file="src/lib.rs", path="impl Iterator for NamedStrategyIter", members=[
            dict(path="fn next", ret="ret", obligation="C13.V.NamedStrategyIter.next",
                 contract="""ensures
    final(self).wf(), // @ob C13.V.NamedStrategyIter.wf_preserved
    (ret is Some) == (old(self).rem() > 0), // @ob C13.V.NamedStrategyIter.some_iff_remaining
    final(self).rem() == (if old(self).rem() > 0 { old(self).rem() - 1 } else { 0 }), // @ob C13.V.NamedStrategyIter.exact_size
    // the k-th item is infoset k with the k-th block of the dense vector; then the singles in order
    old(self).info@.len() > 0 ==> ret is Some
        && *(ret.unwrap().0) == old(self).info@[0].infoset
        && final(self).info@ == old(self).info@.drop_first()
        && final(self).probs@ == old(self).probs@.skip(old(self).info@[0].actions@.len() as int)
        && final(self).singles == old(self).singles, // @ob C13.V.NamedStrategyIter.kth_block
    old(self).info@.len() == 0 && old(self).singles.remaining().len() > 0 ==> ret is Some
        && *(ret.unwrap().0) == old(self).singles.remaining()[0].0
        && final(self).info@.len() == 0
        && final(self).singles.remaining() == old(self).singles.remaining().drop_first(), // @ob C13.V.NamedStrategyIter.singles_in_order""",
                 entry=UNFOLD),
            dict(path="fn size_hint", ret="r", obligation="C13.V.NamedStrategyIter.exact_size",
                 contract="""ensures
    r.0 == self.rem(), r.1 == Some(r.0), // @ob C13.V.NamedStrategyIter.exact_size""",
                 entry="""proof {
    assume(self.wf());
    assume(self.probs@.len() <= isize::MAX && self.info@.len() <= isize::MAX && self.singles.remaining().len() <= isize::MAX);
}"""),
        ]),
    ],
)
