import importlib.util, os
_p = os.path.join(os.path.dirname(__file__), "c14_hash_validate.py")
_s = importlib.util.spec_from_file_location("unit_c14_hash_validate_for_tables", _p); _m = importlib.util.module_from_spec(_s); _s.loader.exec_module(_m)
STUBS = _m.STUBS
EXTRA = """
impl<K, V> HashMap<K, V> {
    #[verifier::external_body]
    pub fn with_capacity(n: usize) -> (r: Self) ensures r@ == Map::<K, V>::empty() { unimplemented!() }
}
// the action table of one infoset: every action mapped to base + its position
pub open spec fn table_ok<A>(m: Map<A, usize>, acts: Seq<A>, base: int, k: int) -> bool {
    (forall|a: A| m.contains_key(a) <==> exists|j: int| 0 <= j < k && #[trigger] acts[j] == a)
    && (forall|j: int| 0 <= j < k ==> #[trigger] m[acts[j]] == base + j)
}
pub open spec fn distinct<A>(acts: Seq<A>) -> bool { forall|i: int, j: int| 0 <= i < j < acts.len() ==> acts[i] != acts[j] }
"""
UNIT = dict(
    id="c14_hash_tables",
    prelude=["floats.rs"],
    canary_use="broadcast use fl; ax_obeys();",
    assumptions=[
        "BLOCK: the unit is the body of the loop over the infoset table at the head of Game::strat_into_box (construction of the name -> dense index tables); the loop header (`for info in infos`, slice iteration) is not part of it",
        "HashMap::{with_capacity, insert} are local declarations with assumed contracts; a clone of a name is the same abstract key (Clone/Eq/Hash coherence of the user's types, assumed)",
        "the actions of one infoset are pairwise different (Game::from_root rejects ActionsNotUnique: C11) and the dense vector length fits usize: preconditions",
    ],
    items=[
        dict(raw=STUBS + EXTRA),
        dict(file="src/lib.rs", path="struct PlayerInfosetData", pub_fields=True),
        dict(file="src/lib.rs", path="impl PlayerInfosetData", members=[
            dict(path="fn num_actions", ret="r", vis="pub ", obligation="C14.V.hash_import.num_actions", rules=[],
                 contract="ensures r == self.actions@.len(), // @ob C14.V.hash_import.num_actions"),
        ]),
        dict(file="src/lib.rs", path="impl Game / fn strat_into_box", loop=0, n_loops=7,
             header_re=r"^for info in infos$",
             as_fn="strat_into_box__index_infoset", generics="<I: Clone, A: Clone>",
             params="info: &PlayerInfosetData<I, A>, inds: &mut HashMap<I, HashMap<A, usize>>, mut num_inds: usize",
             ret="out", ret_type="usize", exit="num_inds",
             obligation="C14.V.hash_import.infoset_table",
             rules=["R1"],
             contract="""requires
    num_inds + info.actions@.len() <= usize::MAX,
    distinct(info.actions@),
ensures
    // the infoset's actions get the next block of dense indices, in the infoset's own action order
    // (the layout of the dense strategy vector everywhere else), and the running index moves past it
    out == num_inds + info.actions@.len(), // @ob C14.V.hash_import.infoset_table
    exists|m: HashMap<A, usize>| final(inds)@ == old(inds)@.insert(info.infoset, m)
        && #[trigger] table_ok(m@, info.actions@, num_inds as int, info.actions@.len() as int), // @ob C14.V.hash_import.infoset_table""",
             entry="""proof { ax_clone_is_equal::<A>(); ax_clone_is_equal::<I>(); }
let ghost base = num_inds as int;
let ghost acts = info.actions@;""",
             loops={0: dict(kind="for", binder="it",
                            head="""invariant
    acts == info.actions@, distinct(acts), base + acts.len() <= usize::MAX,
    0 <= it.index@ <= acts.len(), num_inds == base + it.index@,
    table_ok(actions@, acts, base, it.index@ as int),""",
                            body_start="""proof { ax_clone_is_equal::<A>(); }
let ghost k = it.index@ as int;
let ghost m0 = actions@;""",
                            body_end="""proof {
    assert(actions@ == m0.insert(acts[k], (base + k) as usize));
    assert forall|a: A| actions@.contains_key(a) <==> exists|j: int| 0 <= j < k + 1 && #[trigger] acts[j] == a by {
        if actions@.contains_key(a) {
            if a == acts[k] { assert(acts[k] == a); } else { assert(m0.contains_key(a)); let j = choose|j: int| 0 <= j < k && #[trigger] acts[j] == a; assert(acts[j] == a); }
        }
        if exists|j: int| 0 <= j < k + 1 && #[trigger] acts[j] == a {
            let j = choose|j: int| 0 <= j < k + 1 && #[trigger] acts[j] == a;
            if j < k { assert(acts[j] == a); assert(m0.contains_key(a)); }
        }
    }
    assert forall|j: int| 0 <= j < k + 1 implies #[trigger] actions@[acts[j]] == base + j by {
        if j < k { assert(acts[j] != acts[k]); assert(m0[acts[j]] == base + j); }
    }
}""")}),
    ],
)
