//! Engine K harnesses for src/solve/vanilla.rs (child module, cfg(kani) only).
use super::*;

fn any_prob() -> f64 {
    let p: f64 = kani::any();
    kani::assume(p >= 0.0 && p <= 1.0);
    p
}

/// C06.K.thread_threshold.reach (bounded: a root decision node of player one with three terminal
/// children, target 3; strategy entries any f64 in [0,1]): every frontier entry carries the reach of
/// ITS OWN path -- chance reach 1, the acting player's reach multiplied by that action's probability
/// only, the other player's reach untouched.
#[kani::proof]
#[kani::unwind(6)]
fn c06_thread_threshold_reach() {
    let root = Node::Player(Player {
        num: PlayerNum::One,
        infoset: 0,
        actions: Box::new([Node::Terminal(1.0), Node::Terminal(2.0), Node::Terminal(3.0)]),
    });
    let s = [any_prob(), any_prob(), any_prob()];
    let mut one = [MutexRegretInfoset::new(3)];
    one[0].strat = Box::new(s);
    let mut two: [MutexRegretInfoset; 0] = [];
    let chance: [FullChance<'static>; 0] = [];
    let mut queue = Vec::new();
    let mut work = Vec::new();
    thread_threshold(&root, &chance, [&mut one[..], &mut two[..]], NonZeroUsize::new(3).unwrap(), &mut queue, &mut work);
    assert!(queue.len() + work.len() == 3, "C06.K.thread_threshold.reach: the three children form the frontier");
    let all: Vec<_> = queue.iter().chain(work.iter()).collect();
    let mut i = 0;
    while i < 3 {
        let (node, p_chance, p_player) = all[i];
        let k = match node { Node::Terminal(v) => *v as usize - 1, _ => 9 };
        assert!(k < 3, "C06.K.thread_threshold.reach: frontier entries are the root's children");
        assert!(*p_chance == 1.0, "C06.K.thread_threshold.reach: chance reach of the path");
        assert!(p_player[0] == 1.0 * s[k], "C06.K.thread_threshold.reach: acting player's reach times this action's probability only");
        assert!(p_player[1] == 1.0, "C06.K.thread_threshold.reach: other player's reach untouched");
        i += 1;
    }
}
