//! Engine K harnesses for src/solve/data.rs (child module of `solve::data`, cfg(kani) only).
//! Every harness calls the REAL function; "mirror" expressions are the documented formula.
use super::*;

const N: usize = 3;

fn any_finite() -> f64 {
    let x: f64 = kani::any();
    kani::assume(x.is_finite());
    x
}

fn any_finite_arr() -> [f64; N] {
    [any_finite(), any_finite(), any_finite()]
}

fn any_len() -> usize {
    let n: usize = kani::any();
    kani::assume(n >= 1 && n <= N);
    n
}

fn any_params() -> RegretParams {
    RegretParams {
        pos_regret: kani::any(),
        neg_regret: kani::any(),
        strat: kani::any(),
        no_positive: kani::any(),
    }
}

// ---------------------------------------------------------------------------------------------
// C08 presets / constructor (loop-free: complete proofs)
// ---------------------------------------------------------------------------------------------

/// C08.K.presets: the named presets denote the documented tuples; Default is dcfr.
#[kani::proof]
fn c08_presets() {
    let inf = f64::INFINITY;
    let v = RegretParams::vanilla();
    assert!(v.pos_regret == inf && v.neg_regret == inf && v.strat == 0.0 && v.no_positive == 0.0, "C08.K.presets: vanilla");
    let l = RegretParams::lcfr();
    assert!(l.pos_regret == 1.0 && l.neg_regret == 1.0 && l.strat == 1.0 && l.no_positive == inf, "C08.K.presets: lcfr");
    let p = RegretParams::cfr_plus();
    assert!(p.pos_regret == inf && p.neg_regret == -inf && p.strat == 2.0 && p.no_positive == inf, "C08.K.presets: cfr_plus");
    let d = RegretParams::dcfr();
    assert!(d.pos_regret == 1.5 && d.neg_regret == 0.0 && d.strat == 2.0 && d.no_positive == inf, "C08.K.presets: dcfr");
    let q = RegretParams::dcfr_prune();
    assert!(q.pos_regret == 1.5 && q.neg_regret == 0.5 && q.strat == 2.0 && q.no_positive == inf, "C08.K.presets: dcfr_prune");
    let z = RegretParams::default();
    assert!(z.pos_regret == 1.5 && z.neg_regret == 0.0 && z.strat == 2.0 && z.no_positive == inf, "C08.K.presets: default is dcfr");
}

/// C08.K.new.accepts: for every documented-valid tuple `new` returns normally and stores its arguments.
#[kani::proof]
#[kani::stub(std::fmt::format, fmt_stub)]
fn c08_new_accepts() {
    let (a, b, g, w): (f64, f64, f64, f64) = (kani::any(), kani::any(), kani::any(), kani::any());
    kani::assume(!a.is_nan() && !b.is_nan() && !w.is_nan() && g >= 0.0 && g != f64::INFINITY);
    let p = RegretParams::new(a, b, g, w);
    assert!(p.pos_regret.to_bits() == a.to_bits() && p.neg_regret.to_bits() == b.to_bits(), "C08.K.new: stores regret exponents");
    assert!(p.strat.to_bits() == g.to_bits() && p.no_positive.to_bits() == w.to_bits(), "C08.K.new: stores strat / no_positive");
}

/// C08.K.new.rejects: every documented-invalid tuple panics.
#[kani::proof]
#[kani::should_panic]
#[kani::stub(std::fmt::format, fmt_stub)]
fn c08_new_rejects() {
    let (a, b, g, w): (f64, f64, f64, f64) = (kani::any(), kani::any(), kani::any(), kani::any());
    kani::assume(a.is_nan() || b.is_nan() || w.is_nan() || !(g >= 0.0) || g == f64::INFINITY);
    let _ = RegretParams::new(a, b, g, w);
}

fn fmt_stub(_: std::fmt::Arguments<'_>) -> String {
    String::new()
}

// ---------------------------------------------------------------------------------------------
// C08 gen_discount special values (function contract; loop-free: complete proof)
// ---------------------------------------------------------------------------------------------

/// C08.K.gen_discount.special: -inf -> 0, 0 -> 1/2, +inf -> 1, for EVERY iteration number.
#[kani::proof_for_contract(RegretParams::gen_discount)]
fn c08_gen_discount_special() {
    let it: u64 = kani::any();
    let d: f64 = kani::any();
    RegretParams::gen_discount(it, d);
}

// ---------------------------------------------------------------------------------------------
// C02 / C05 cum_regret
// ---------------------------------------------------------------------------------------------

fn fold_max(r: &[f64]) -> Option<f64> {
    let mut acc: Option<f64> = None;
    let mut i = 0;
    while i < r.len() {
        acc = Some(match acc {
            None => r[i],
            Some(a) => f64::max(a, r[i]),
        });
        i += 1;
    }
    acc
}

/// C02.K.cum_regret.formula: 2 * max(max_i R_i, 0) / T, for all finite regrets and all T >= 1;
/// never negative, never NaN; the regrets are not modified; an empty infoset gives 0.
#[kani::proof]
#[kani::unwind(5)]
#[kani::solver(cvc5)]
fn c02_cum_regret_formula() {
    let orig = any_finite_arr();
    let mut r = orig;
    let n: usize = kani::any();
    kani::assume(n <= N);
    let it: u64 = kani::any();
    kani::assume(it >= 1);
    let p = any_params();
    let res = p.cum_regret(it, &mut r[..n]);
    let spec = 2.0 * f64::max(fold_max(&orig[..n]).unwrap_or(0.0), 0.0) / it as f64;
    assert!(res == spec, "C02.K.cum_regret.formula: result is 2*max(max R,0)/T");
    assert!(res >= 0.0, "C02.K.cum_regret.nonneg: bound is a non-negative number");
    assert!(n > 0 || res == 0.0, "C02.K.cum_regret.formula: empty infoset gives 0");
    assert!(r[0].to_bits() == orig[0].to_bits() && r[1].to_bits() == orig[1].to_bits() && r[2].to_bits() == orig[2].to_bits(),
        "C02.K.cum_regret.frame: regrets unchanged");
    kani::cover!(n == 3 && res > 0.0, "positive bound reachable");
}

// ---------------------------------------------------------------------------------------------
// C05 avg_strat
// ---------------------------------------------------------------------------------------------

/// C05.K.avg_strat.distribution: finite non-negative accumulations with a finite sum normalise to
/// finite entries in [0,1] with at least one positive; nothing accumulated gives exactly uniform.
#[kani::proof]
#[kani::unwind(5)]
#[kani::solver(cvc5)]
fn c05_avg_strat_distribution() {
    let orig = any_finite_arr();
    kani::assume(orig[0] >= 0.0 && orig[1] >= 0.0 && orig[2] >= 0.0);
    kani::assume(orig[0] <= 1e300 && orig[1] <= 1e300 && orig[2] <= 1e300);
    let n = any_len();
    let mut s = orig;
    avg_strat(&mut s[..n]);
    let mut any_pos = false;
    let mut all_zero_in = true;
    let mut i = 0;
    while i < n {
        assert!(s[i].is_finite() && s[i] >= 0.0 && s[i] <= 1.0, "C05.K.avg_strat.distribution: entry finite and in [0,1]");
        if s[i] > 0.0 { any_pos = true; }
        if orig[i] != 0.0 { all_zero_in = false; }
        i += 1;
    }
    assert!(any_pos, "C05.K.avg_strat.distribution: some action has positive probability");
    if all_zero_in {
        let mut j = 0;
        while j < n {
            assert!(s[j] == 1.0 / n as f64, "C05.K.avg_strat.uniform_when_empty: uniform if nothing accumulated");
            j += 1;
        }
    }
    kani::cover!(all_zero_in && n == 3, "zero guard reachable");
    kani::cover!(!all_zero_in && n == 3, "normalisation reachable");
}

/// C05.K.RegretInfoset_new.uniform: a fresh infoset plays uniformly and has nothing accumulated.
#[kani::proof]
#[kani::unwind(5)]
fn c05_regret_infoset_new() {
    let n = any_len();
    let info = RegretInfoset::new(n);
    assert!(info.strat.len() == n && info.cum_regret.len() == n && info.cum_strat.len() == n, "C05.K.RegretInfoset_new: lengths");
    let mut i = 0;
    while i < n {
        assert!(info.strat[i] == 1.0 / n as f64, "C05.K.RegretInfoset_new.uniform: uniform start");
        assert!(info.cum_regret[i] == 0.0 && info.cum_strat[i] == 0.0, "C05.K.RegretInfoset_new: zero accumulators");
        i += 1;
    }
}

// ---------------------------------------------------------------------------------------------
// C05 / C08 regret_match
// ---------------------------------------------------------------------------------------------

fn bounded_regrets() -> [f64; N] {
    let r = any_finite_arr();
    kani::assume(r[0].abs() <= 1e150 && r[1].abs() <= 1e150 && r[2].abs() <= 1e150);
    r
}

fn is_distribution(s: &[f64]) -> bool {
    let mut any_pos = false;
    let mut i = 0;
    while i < s.len() {
        if !(s[i].is_finite() && s[i] >= 0.0 && s[i] <= 1.0) {
            return false;
        }
        if s[i] > 0.0 { any_pos = true; }
        i += 1;
    }
    any_pos
}

/// C08.K.regret_match.positive: with some positive regret the next strategy is proportional to the
/// positive part of the regrets (zero exactly on non-positive regrets); C05: it is a distribution.
#[kani::proof]
#[kani::unwind(5)]
#[kani::solver(cvc5)]
fn c08_regret_match_positive() {
    let orig = bounded_regrets();
    let n = any_len();
    let mut some_pos = false;
    let mut i = 0;
    while i < n { if orig[i] > 0.0 { some_pos = true; } i += 1; }
    kani::assume(some_pos);
    let mut r = orig;
    let mut s = [0.5f64; N];
    let p = any_params();
    p.regret_match(&mut r[..n], &mut s[..n]);
    assert!(is_distribution(&s[..n]), "C05.K.regret_match.distribution: positive branch gives a distribution");
    let mut j = 0;
    while j < n {
        assert!((s[j] == 0.0) == !(orig[j] > 0.0), "C08.K.regret_match.positive: support is exactly the positive regrets");
        assert!(r[j].to_bits() == orig[j].to_bits(), "C08.K.regret_match.frame: regrets unchanged");
        j += 1;
    }
    // proportionality: s_a * R_b == s_b * R_a up to one rounding is not bit-exact; check order instead
    if n == 3 && orig[0] > 0.0 && orig[1] > 0.0 {
        assert!((orig[0] <= orig[1]) == (s[0] <= s[1]) || s[0] == s[1], "C08.K.regret_match.positive: monotone in the regret");
    }
}

/// C08.K.regret_match.fallbacks: without positive regret -> weight +inf: best action; 0: uniform;
/// -inf: worst action.  C05: always a distribution, never a panic (finite regrets).
#[kani::proof]
#[kani::unwind(5)]
#[kani::solver(cvc5)]
fn c08_regret_match_fallbacks() {
    let orig = bounded_regrets();
    let n = any_len();
    let mut i = 0;
    while i < n { kani::assume(!(orig[i] > 0.0)); i += 1; }
    let mut r = orig;
    let mut s = [0.5f64; N];
    let mut p = any_params();
    let which: u8 = kani::any();
    kani::assume(which < 3);
    p.no_positive = if which == 0 { f64::INFINITY } else if which == 1 { 0.0 } else { f64::NEG_INFINITY };
    p.regret_match(&mut r[..n], &mut s[..n]);
    assert!(is_distribution(&s[..n]), "C05.K.regret_match.distribution: fallback gives a distribution");
    let mx = fold_max(&orig[..n]).unwrap();
    let mut j = 0;
    let mut ones = 0;
    while j < n {
        if which == 1 {
            assert!(s[j] == 1.0 / n as f64, "C08.K.regret_match.uniform: weight 0 is uniform");
        } else {
            assert!(s[j] == 0.0 || s[j] == 1.0, "C08.K.regret_match.argmax: pure strategy");
            if s[j] == 1.0 {
                ones += 1;
                if which == 0 {
                    assert!(orig[j] == mx, "C08.K.regret_match.argmax: weight +inf plays a best action");
                } else {
                    let mut k = 0;
                    while k < n { assert!(orig[j] <= orig[k], "C08.K.regret_match.argmin: weight -inf plays a worst action"); k += 1; }
                }
            }
        }
        assert!(r[j].to_bits() == orig[j].to_bits(), "C08.K.regret_match.frame: regrets unchanged");
        j += 1;
    }
    assert!(which == 1 || ones == 1, "C08.K.regret_match.argmax: exactly one action");
    kani::cover!(which == 0 && n == 3, "argmax reachable");
    kani::cover!(which == 2 && n == 3, "argmin reachable");
}

/// Sound interval model of f64::exp (CBMC's own exp is a nondeterministic over-approximation).
/// exp(x) for x <= 0 lies in [0,1], exp(0) == 1, exp(x) >= 1 (possibly +inf) for x > 0, NaN -> NaN.
fn exp_model(x: f64) -> f64 {
    if x.is_nan() {
        return f64::NAN;
    }
    if x == 0.0 {
        return 1.0;
    }
    let r: f64 = kani::any();
    if x < 0.0 {
        kani::assume(r >= 0.0 && r <= 1.0);
    } else {
        kani::assume(r >= 1.0);
    }
    r
}

/// C05.K.regret_match.softmax: finite non-zero weight of either sign, no positive regret: the
/// softmax fallback is a distribution (finite, in [0,1], some entry positive), never NaN.
#[kani::proof]
#[kani::unwind(5)]
#[kani::solver(cvc5)]
#[kani::stub(f64::exp, exp_model)]
fn c05_regret_match_softmax() {
    let orig = bounded_regrets();
    let n = any_len();
    let mut i = 0;
    while i < n { kani::assume(!(orig[i] > 0.0)); i += 1; }
    let mut r = orig;
    let mut s = [0.5f64; N];
    let mut p = any_params();
    let w: f64 = kani::any();
    kani::assume(w.is_finite() && w != 0.0 && w.abs() <= 1e3);
    p.no_positive = w;
    p.regret_match(&mut r[..n], &mut s[..n]);
    assert!(is_distribution(&s[..n]), "C05.K.regret_match.softmax: softmax fallback gives a distribution for either sign of the weight");
    kani::cover!(w < 0.0 && n == 3, "negative weight reachable");
    kani::cover!(w > 0.0 && n == 3, "positive weight reachable");
}

// ---------------------------------------------------------------------------------------------
// C08 discount_cum_regret / discount_average_strat (callee replaced by observers)
// ---------------------------------------------------------------------------------------------

static mut GD_IT: u64 = 0;
static mut GD_POS_PARAM: u64 = 0;
static mut GD_POS_OUT: f64 = 0.0;
static mut GD_NEG_OUT: f64 = 0.0;

/// observer for gen_discount: checks the iteration number it is called with and answers with the
/// harness' symbolic factor for the positive / negative exponent
fn gen_discount_observer(it: u64, discount: f64) -> f64 {
    unsafe {
        assert!(it == GD_IT, "C08.K.discount_cum_regret: gen_discount called with the caller's iteration number");
        if discount.to_bits() == GD_POS_PARAM { GD_POS_OUT } else { GD_NEG_OUT }
    }
}

/// C08.K.discount_cum_regret: positive regrets are multiplied by the factor of `pos_regret`,
/// negative ones by the factor of `neg_regret`, zeros untouched, same iteration number for both.
#[kani::proof]
#[kani::unwind(5)]
#[kani::stub(RegretParams::gen_discount, gen_discount_observer)]
fn c08_discount_cum_regret() {
    let orig = any_finite_arr();
    let n = any_len();
    let mut r = orig;
    let p = any_params();
    kani::assume(p.pos_regret.to_bits() != p.neg_regret.to_bits());
    let it: u64 = kani::any();
    let (gp, gn) = (any_finite(), any_finite());
    unsafe {
        GD_IT = it;
        GD_POS_PARAM = p.pos_regret.to_bits();
        GD_POS_OUT = gp;
        GD_NEG_OUT = gn;
    }
    p.discount_cum_regret(it, &mut r[..n]);
    let mut j = 0;
    while j < N {
        let want = if j >= n { orig[j] } else if orig[j] > 0.0 { orig[j] * gp } else if orig[j] < 0.0 { orig[j] * gn } else { orig[j] };
        assert!(r[j].to_bits() == want.to_bits(), "C08.K.discount_cum_regret: positive x factor(alpha), negative x factor(beta), zero untouched");
        j += 1;
    }
}

static mut POWF_BASE: u64 = 0;
static mut POWF_EXP: u64 = 0;
static mut POWF_OUT: f64 = 0.0;
static mut POWF_CALLS: u32 = 0;

fn powf_observer(base: f64, e: f64) -> f64 {
    unsafe {
        POWF_BASE = base.to_bits();
        POWF_EXP = e.to_bits();
        POWF_CALLS += 1;
        POWF_OUT
    }
}

/// C08.K.discount_average_strat: every entry is multiplied by ONE ratio (t/(t+1))^gamma; unchanged
/// for gamma == 0; all zero for gamma == +inf.
#[kani::proof]
#[kani::unwind(5)]
#[kani::stub(f64::powf, powf_observer)]
fn c08_discount_average_strat() {
    let orig = any_finite_arr();
    let n = any_len();
    let mut s = orig;
    let p = any_params();
    kani::assume(!p.strat.is_nan() && p.strat >= 0.0);
    let it: u64 = kani::any();
    let out = any_finite();
    unsafe { POWF_OUT = out; POWF_CALLS = 0; }
    p.discount_average_strat(it, &mut s[..n]);
    let calls = unsafe { POWF_CALLS };
    let mut j = 0;
    while j < N {
        let want = if j >= n { orig[j] } else if p.strat == f64::INFINITY { 0.0 } else if p.strat > 0.0 { orig[j] * out } else { orig[j] };
        assert!(s[j].to_bits() == want.to_bits(), "C08.K.discount_average_strat: every entry x one shared ratio");
        j += 1;
    }
    if p.strat > 0.0 && p.strat != f64::INFINITY {
        let t = it as f64;
        assert!(calls == 1, "C08.K.discount_average_strat: ratio computed once");
        assert!(unsafe { POWF_BASE } == (t / (t + 1.0)).to_bits(), "C08.K.discount_average_strat: base is t/(t+1)");
        assert!(unsafe { POWF_EXP } == p.strat.to_bits(), "C08.K.discount_average_strat: exponent is gamma");
    } else {
        assert!(calls == 0, "C08.K.discount_average_strat: no discount for gamma 0 / inf");
    }
    kani::cover!(p.strat == 0.0, "gamma zero reachable");
    kani::cover!(p.strat == 2.0, "gamma two reachable");
}
