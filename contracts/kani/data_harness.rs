//! Engine K harnesses for src/solve/data.rs (child module of `solve::data`, cfg(kani) only).
//! Every harness calls the REAL function; "mirror" expressions are the documented formula.
use super::*;

fn any_finite() -> f64 {
    let x: f64 = kani::any();
    kani::assume(x.is_finite());
    x
}

/// Fixed-length arrays (one harness instance per length 1, 2, 3): slices of symbolic length make
/// CBMC's SMT2 back end (needed for float reasoning) abort.
fn any_finite_arr<const N: usize>() -> [f64; N] {
    let mut a = [0.0f64; N];
    let mut i = 0;
    while i < N { a[i] = any_finite(); i += 1; }
    a
}

macro_rules! for_lengths {
    ($body:ident, $n1:ident, $n2:ident, $n3:ident, $($attr:meta),*) => {
        #[kani::proof] #[kani::unwind(5)] $(#[$attr])* fn $n1() { $body::<1>(); }
        #[kani::proof] #[kani::unwind(5)] $(#[$attr])* fn $n2() { $body::<2>(); }
        #[kani::proof] #[kani::unwind(5)] $(#[$attr])* fn $n3() { $body::<3>(); }
    };
}

fn any_params() -> RegretParams {
    RegretParams {
        pos_regret: kani::any(),
        neg_regret: kani::any(),
        strat: kani::any(),
        no_positive: kani::any(),
    }
}

// ---------------------------------------------------------------------------------------------
// C08 presets / constructor (loop-free: complete proofs)
// ---------------------------------------------------------------------------------------------

/// C08.K.presets: the named presets denote the documented tuples; Default is dcfr.
#[kani::proof]
fn c08_presets() {
    let inf = f64::INFINITY;
    let v = RegretParams::vanilla();
    assert!(v.pos_regret == inf && v.neg_regret == inf && v.strat == 0.0 && v.no_positive == 0.0, "C08.K.presets: vanilla");
    let l = RegretParams::lcfr();
    assert!(l.pos_regret == 1.0 && l.neg_regret == 1.0 && l.strat == 1.0 && l.no_positive == inf, "C08.K.presets: lcfr");
    let p = RegretParams::cfr_plus();
    assert!(p.pos_regret == inf && p.neg_regret == -inf && p.strat == 2.0 && p.no_positive == inf, "C08.K.presets: cfr_plus");
    let d = RegretParams::dcfr();
    assert!(d.pos_regret == 1.5 && d.neg_regret == 0.0 && d.strat == 2.0 && d.no_positive == inf, "C08.K.presets: dcfr");
    let q = RegretParams::dcfr_prune();
    assert!(q.pos_regret == 1.5 && q.neg_regret == 0.5 && q.strat == 2.0 && q.no_positive == inf, "C08.K.presets: dcfr_prune");
    let z = RegretParams::default();
    assert!(z.pos_regret == 1.5 && z.neg_regret == 0.0 && z.strat == 2.0 && z.no_positive == inf, "C08.K.presets: default is dcfr");
}

/// C08.K.new.accepts: for every documented-valid tuple `new` returns normally and stores its arguments.
#[kani::proof]
#[kani::stub(std::fmt::format, fmt_stub)]
fn c08_new_accepts() {
    let (a, b, g, w): (f64, f64, f64, f64) = (kani::any(), kani::any(), kani::any(), kani::any());
    kani::assume(!a.is_nan() && !b.is_nan() && !w.is_nan() && g >= 0.0 && g != f64::INFINITY);
    let p = RegretParams::new(a, b, g, w);
    assert!(p.pos_regret.to_bits() == a.to_bits() && p.neg_regret.to_bits() == b.to_bits(), "C08.K.new: stores regret exponents");
    assert!(p.strat.to_bits() == g.to_bits() && p.no_positive.to_bits() == w.to_bits(), "C08.K.new: stores strat / no_positive");
}

/// C08.K.new.rejects: every documented-invalid tuple panics.
#[kani::proof]
#[kani::should_panic]
#[kani::stub(std::fmt::format, fmt_stub)]
fn c08_new_rejects() {
    let (a, b, g, w): (f64, f64, f64, f64) = (kani::any(), kani::any(), kani::any(), kani::any());
    kani::assume(a.is_nan() || b.is_nan() || w.is_nan() || !(g >= 0.0) || g == f64::INFINITY);
    let _ = RegretParams::new(a, b, g, w);
}

fn fmt_stub(_: std::fmt::Arguments<'_>) -> String {
    String::new()
}

// ---------------------------------------------------------------------------------------------
// C08 gen_discount special values (loop-free over all u64 x the three special exponents: complete)
// ---------------------------------------------------------------------------------------------

/// C08.K.gen_discount.special: -inf -> 0, 0 -> 1/2, +inf -> 1, for EVERY iteration number.
#[kani::proof]
fn c08_gen_discount_special() {
    let it: u64 = kani::any();
    assert!(RegretParams::gen_discount(it, f64::NEG_INFINITY) == 0.0, "C08.K.gen_discount.special: exponent -inf forgets everything");
    assert!(RegretParams::gen_discount(it, 0.0) == 0.5, "C08.K.gen_discount.special: exponent 0 halves");
    assert!(RegretParams::gen_discount(it, -0.0) == 0.5, "C08.K.gen_discount.special: exponent -0 halves");
    assert!(RegretParams::gen_discount(it, f64::INFINITY) == 1.0, "C08.K.gen_discount.special: exponent +inf never discounts");
}

// ---------------------------------------------------------------------------------------------
// C02 / C05 cum_regret
// ---------------------------------------------------------------------------------------------

fn fold_max<const N: usize>(r: &[f64; N]) -> f64 {
    let mut acc = r[0];
    let mut i = 1;
    while i < N { acc = f64::max(acc, r[i]); i += 1; }
    acc
}

/// C02.K.cum_regret.formula: 2 * max(max_i R_i, 0) / T, for all finite regrets and all T >= 1;
/// never negative, never NaN; the regrets are not modified.
fn cum_regret_formula<const N: usize>() {
    let orig = any_finite_arr::<N>();
    let mut r = orig;
    let it: u64 = kani::any();
    kani::assume(it >= 1);
    let p = any_params();
    let res = p.cum_regret(it, &mut r);
    let spec = 2.0 * f64::max(fold_max(&orig), 0.0) / it as f64;
    assert!(res == spec, "C02.K.cum_regret.formula: result is 2*max(max R,0)/T");
    assert!(res >= 0.0, "C02.K.cum_regret.nonneg: bound is a non-negative number");
    let mut i = 0;
    while i < N { assert!(r[i].to_bits() == orig[i].to_bits(), "C02.K.cum_regret.frame: regrets unchanged"); i += 1; }
    kani::cover!(res > 0.0, "positive bound reachable");
}
for_lengths!(cum_regret_formula, c02_cum_regret_formula_n1, c02_cum_regret_formula_n2, c02_cum_regret_formula_n3, kani::solver(cvc5));

/// C02.K.cum_regret.empty: an infoset without actions contributes 0.
#[kani::proof]
#[kani::unwind(3)]
fn c02_cum_regret_empty() {
    let mut r: [f64; 0] = [];
    let it: u64 = kani::any();
    kani::assume(it >= 1);
    assert!(any_params().cum_regret(it, &mut r) == 0.0, "C02.K.cum_regret.formula: empty infoset gives 0");
}

// ---------------------------------------------------------------------------------------------
// C05 avg_strat
// ---------------------------------------------------------------------------------------------

fn is_distribution<const N: usize>(s: &[f64; N]) -> bool {
    let mut any_pos = false;
    let mut ok = true;
    let mut i = 0;
    while i < N {
        if !(s[i].is_finite() && s[i] >= 0.0 && s[i] <= 1.0) { ok = false; }
        if s[i] > 0.0 { any_pos = true; }
        i += 1;
    }
    ok && any_pos
}

/// C05.K.avg_strat.distribution: finite non-negative accumulations (each <= 1e300) normalise to
/// finite entries in [0,1] with at least one positive; nothing accumulated gives exactly uniform.
fn avg_strat_distribution<const N: usize>() {
    let orig = any_finite_arr::<N>();
    let mut all_zero_in = true;
    let mut i = 0;
    while i < N { kani::assume(orig[i] >= 0.0 && orig[i] <= 1e300); if orig[i] != 0.0 { all_zero_in = false; } i += 1; }
    let mut s = orig;
    avg_strat(&mut s);
    assert!(is_distribution(&s), "C05.K.avg_strat.distribution: finite entries in [0,1], some action positive");
    if all_zero_in {
        let mut j = 0;
        while j < N { assert!(s[j] == 1.0 / N as f64, "C05.K.avg_strat.uniform_when_empty: uniform if nothing accumulated"); j += 1; }
    }
    kani::cover!(all_zero_in, "zero guard reachable");
    kani::cover!(!all_zero_in, "normalisation reachable");
}
for_lengths!(avg_strat_distribution, c05_avg_strat_distribution_n1, c05_avg_strat_distribution_n2, c05_avg_strat_distribution_n3, kani::solver(cvc5));

/// C05.K.RegretInfoset_new.uniform: a fresh infoset plays uniformly and has nothing accumulated.
#[kani::proof]
#[kani::unwind(5)]
fn c05_regret_infoset_new() {
    let n: usize = kani::any();
    kani::assume(n >= 1 && n <= 3);
    let info = RegretInfoset::new(n);
    assert!(info.strat.len() == n && info.cum_regret.len() == n && info.cum_strat.len() == n, "C05.K.RegretInfoset_new: lengths");
    let mut i = 0;
    while i < n {
        assert!(info.strat[i] == 1.0 / n as f64, "C05.K.RegretInfoset_new.uniform: uniform start");
        assert!(info.cum_regret[i] == 0.0 && info.cum_strat[i] == 0.0, "C05.K.RegretInfoset_new: zero accumulators");
        i += 1;
    }
}

// ---------------------------------------------------------------------------------------------
// C05 / C08 regret_match
// ---------------------------------------------------------------------------------------------

fn bounded_regrets<const N: usize>() -> [f64; N] {
    let r = any_finite_arr::<N>();
    let mut i = 0;
    while i < N { kani::assume(r[i].abs() <= 1e150); i += 1; }
    r
}

/// C08.K.regret_match.positive: with some positive regret the next strategy is proportional to the
/// positive part of the regrets (zero exactly on non-positive regrets); C05: it is a distribution.
fn regret_match_positive<const N: usize>() {
    let orig = bounded_regrets::<N>();
    let mut some_pos = false;
    let mut i = 0;
    while i < N { if orig[i] > 0.0 { some_pos = true; } i += 1; }
    kani::assume(some_pos);
    let mut r = orig;
    let mut s = [0.5f64; N];
    let p = any_params();
    p.regret_match(&mut r, &mut s);
    assert!(is_distribution(&s), "C05.K.regret_match.distribution: positive branch gives a distribution");
    let mut j = 0;
    while j < N {
        // (a tiny positive regret may underflow to probability 0 next to a huge one, so only this direction is exact)
        assert!(orig[j] > 0.0 || s[j] == 0.0, "C08.K.regret_match.positive: non-positive regrets get probability exactly 0");
        assert!(r[j].to_bits() == orig[j].to_bits(), "C08.K.regret_match.frame: regrets unchanged");
        let mut k = 0;
        while k < N {
            if orig[j] > 0.0 && orig[k] > 0.0 && orig[j] <= orig[k] {
                assert!(s[j] <= s[k], "C08.K.regret_match.positive: larger positive regret, no smaller probability");
            }
            k += 1;
        }
        j += 1;
    }
}
for_lengths!(regret_match_positive, c08_regret_match_positive_n1, c08_regret_match_positive_n2, c08_regret_match_positive_n3, kani::solver(cvc5));

/// C05.K.regret_match.any_finite_regrets (KNOWN FINDING D10): the same claim WITHOUT the magnitude
/// bound -- any finite cumulative regrets.  Fails: two regrets near f64::MAX sum to +inf and every
/// probability becomes r / inf = 0 (the first step of the overflow chain that makes `solve` panic for
/// payoffs around 1e308).  Listed in known_findings.json; the bounded harnesses above are its residual.
#[kani::proof]
#[kani::unwind(5)]
#[kani::solver(cvc5)]
fn c05_regret_match_any_finite_n2() {
    let orig = any_finite_arr::<2>();
    kani::assume(orig[0] > 0.0 || orig[1] > 0.0);
    let mut r = orig;
    let mut s = [0.5f64; 2];
    let p = any_params();
    p.regret_match(&mut r, &mut s);
    assert!(is_distribution(&s), "C05.K.regret_match.any_finite_regrets: a distribution for ANY finite regrets");
}

/// C08.K.regret_match.fallbacks: without positive regret -> weight +inf: a best action; 0: uniform;
/// -inf: a worst action.  C05: always a distribution, never a panic (finite regrets).
fn regret_match_fallbacks<const N: usize>() {
    let orig = bounded_regrets::<N>();
    let mut i = 0;
    while i < N { kani::assume(!(orig[i] > 0.0)); i += 1; }
    let mut r = orig;
    let mut s = [0.5f64; N];
    let mut p = any_params();
    let which: u8 = kani::any();
    kani::assume(which < 3);
    p.no_positive = if which == 0 { f64::INFINITY } else if which == 1 { 0.0 } else { f64::NEG_INFINITY };
    p.regret_match(&mut r, &mut s);
    assert!(is_distribution(&s), "C05.K.regret_match.distribution: fallback gives a distribution");
    let mut j = 0;
    let mut ones = 0;
    while j < N {
        if which == 1 {
            assert!(s[j] == 1.0 / N as f64, "C08.K.regret_match.uniform: weight 0 is uniform");
        } else {
            assert!(s[j] == 0.0 || s[j] == 1.0, "C08.K.regret_match.argmax: pure strategy");
            if s[j] == 1.0 {
                ones += 1;
                let mut k = 0;
                while k < N {
                    if which == 0 { assert!(orig[j] >= orig[k], "C08.K.regret_match.argmax: weight +inf plays a best action"); }
                    else { assert!(orig[j] <= orig[k], "C08.K.regret_match.argmin: weight -inf plays a worst action"); }
                    k += 1;
                }
            }
        }
        assert!(r[j].to_bits() == orig[j].to_bits(), "C08.K.regret_match.frame: regrets unchanged");
        j += 1;
    }
    assert!(which == 1 || ones == 1, "C08.K.regret_match.argmax: exactly one action");
    kani::cover!(which == 0, "argmax reachable");
    kani::cover!(which == 2, "argmin reachable");
}
for_lengths!(regret_match_fallbacks, c08_regret_match_fallbacks_n1, c08_regret_match_fallbacks_n2, c08_regret_match_fallbacks_n3, kani::solver(cvc5));

/// Sound interval model of f64::exp (CBMC's own exp is a nondeterministic over-approximation).
/// exp(x) for x <= 0 lies in [0,1], exp(0) == 1, exp(x) >= 1 (possibly +inf) for x > 0, NaN -> NaN.
fn exp_model(x: f64) -> f64 {
    if x.is_nan() {
        return f64::NAN;
    }
    if x == 0.0 {
        return 1.0;
    }
    let r: f64 = kani::any();
    if x < 0.0 {
        kani::assume(r >= 0.0 && r <= 1.0);
    } else {
        kani::assume(r >= 1.0);
    }
    r
}

/// C05.K.regret_match.softmax: finite non-zero weight of either sign (symbolic sign and magnitude
/// class: +-1, +-1e3), no positive regret: the softmax fallback is a distribution (finite, in
/// [0,1], some entry positive), never NaN.
fn regret_match_softmax<const N: usize>(w: f64) {
    let orig = bounded_regrets::<N>();
    let mut i = 0;
    while i < N { kani::assume(!(orig[i] > 0.0)); i += 1; }
    let mut r = orig;
    let mut s = [0.5f64; N];
    let mut p = RegretParams::vanilla();
    p.no_positive = w;
    p.regret_match(&mut r, &mut s);
    assert!(is_distribution(&s), "C05.K.regret_match.softmax: softmax fallback gives a distribution for either sign of the weight");
}
#[kani::proof] #[kani::unwind(5)] #[kani::solver(cvc5)] #[kani::stub(f64::exp, exp_model)]
fn c05_regret_match_softmax_pos_n1() { regret_match_softmax::<1>(1.0); }
#[kani::proof] #[kani::unwind(5)] #[kani::solver(cvc5)] #[kani::stub(f64::exp, exp_model)]
fn c05_regret_match_softmax_neg_n1() { regret_match_softmax::<1>(-1e3); }
#[kani::proof] #[kani::unwind(5)] #[kani::solver(cvc5)] #[kani::stub(f64::exp, exp_model)]
fn c05_regret_match_softmax_pos_n2() { regret_match_softmax::<2>(1e3); }
#[kani::proof] #[kani::unwind(5)] #[kani::solver(cvc5)] #[kani::stub(f64::exp, exp_model)]
fn c05_regret_match_softmax_neg_n2() { regret_match_softmax::<2>(-1e3); }
#[kani::proof] #[kani::unwind(5)] #[kani::solver(cvc5)] #[kani::stub(f64::exp, exp_model)]
fn c05_regret_match_softmax_neg_n3() { regret_match_softmax::<3>(-1.0); }
#[kani::proof] #[kani::unwind(5)] #[kani::solver(cvc5)] #[kani::stub(f64::exp, exp_model)]
fn c05_regret_match_softmax_pos_n3() { regret_match_softmax::<3>(1.0); }
/// any finite non-zero weight |w| <= 1e3 (symbolic), two actions
#[kani::proof] #[kani::unwind(5)] #[kani::solver(cvc5)] #[kani::stub(f64::exp, exp_model)]
fn c05_regret_match_softmax_anyw_n2() {
    let w: f64 = kani::any();
    kani::assume(w.is_finite() && w != 0.0 && w.abs() <= 1e3);
    regret_match_softmax::<2>(w);
}

// ---------------------------------------------------------------------------------------------
// C08 discount_cum_regret / discount_average_strat (callee replaced by observers)
// ---------------------------------------------------------------------------------------------

static mut GD_IT: u64 = 0;
static mut GD_POS_PARAM: u64 = 0;
static mut GD_POS_OUT: f64 = 0.0;
static mut GD_NEG_OUT: f64 = 0.0;

/// observer for gen_discount: checks the iteration number it is called with and answers with the
/// harness' symbolic factor for the positive / negative exponent
fn gen_discount_observer(it: u64, discount: f64) -> f64 {
    unsafe {
        assert!(it == GD_IT, "C08.K.discount_cum_regret: gen_discount called with the caller's iteration number");
        if discount.to_bits() == GD_POS_PARAM { GD_POS_OUT } else { GD_NEG_OUT }
    }
}

/// C08.K.discount_cum_regret: positive regrets are multiplied by the factor of `pos_regret`,
/// negative ones by the factor of `neg_regret`, zeros untouched, same iteration number for both.
fn discount_cum_regret<const N: usize>() {
    let orig = any_finite_arr::<N>();
    let mut r = orig;
    let p = any_params();
    kani::assume(p.pos_regret.to_bits() != p.neg_regret.to_bits());
    let it: u64 = kani::any();
    let (gp, gn) = (any_finite(), any_finite());
    unsafe {
        GD_IT = it;
        GD_POS_PARAM = p.pos_regret.to_bits();
        GD_POS_OUT = gp;
        GD_NEG_OUT = gn;
    }
    p.discount_cum_regret(it, &mut r);
    let mut j = 0;
    while j < N {
        let want = if orig[j] > 0.0 { orig[j] * gp } else if orig[j] < 0.0 { orig[j] * gn } else { orig[j] };
        assert!(r[j].to_bits() == want.to_bits(), "C08.K.discount_cum_regret: positive x factor(alpha), negative x factor(beta), zero untouched");
        j += 1;
    }
}
for_lengths!(discount_cum_regret, c08_discount_cum_regret_n1, c08_discount_cum_regret_n2, c08_discount_cum_regret_n3, kani::stub(RegretParams::gen_discount, gen_discount_observer));

static mut POWF_BASE: u64 = 0;
static mut POWF_EXP: u64 = 0;
static mut POWF_OUT: f64 = 0.0;
static mut POWF_CALLS: u32 = 0;

fn powf_observer(base: f64, e: f64) -> f64 {
    unsafe {
        POWF_BASE = base.to_bits();
        POWF_EXP = e.to_bits();
        POWF_CALLS += 1;
        POWF_OUT
    }
}

/// C08.K.discount_average_strat: every entry is multiplied by ONE ratio (t/(t+1))^gamma; unchanged
/// for gamma == 0; all zero for gamma == +inf.
fn discount_average_strat<const N: usize>() {
    let orig = any_finite_arr::<N>();
    let mut s = orig;
    let p = any_params();
    kani::assume(!p.strat.is_nan() && p.strat >= 0.0);
    let it: u64 = kani::any();
    let out = any_finite();
    unsafe { POWF_OUT = out; POWF_CALLS = 0; }
    p.discount_average_strat(it, &mut s);
    let calls = unsafe { POWF_CALLS };
    let mut j = 0;
    while j < N {
        let want = if p.strat == f64::INFINITY { 0.0 } else if p.strat > 0.0 { orig[j] * out } else { orig[j] };
        assert!(s[j].to_bits() == want.to_bits(), "C08.K.discount_average_strat: every entry x one shared ratio");
        j += 1;
    }
    if p.strat > 0.0 && p.strat != f64::INFINITY {
        let t = it as f64;
        assert!(calls == 1, "C08.K.discount_average_strat: ratio computed once");
        assert!(unsafe { POWF_BASE } == (t / (t + 1.0)).to_bits(), "C08.K.discount_average_strat: base is t/(t+1)");
        assert!(unsafe { POWF_EXP } == p.strat.to_bits(), "C08.K.discount_average_strat: exponent is gamma");
    } else {
        assert!(calls == 0, "C08.K.discount_average_strat: no discount for gamma 0 / inf");
    }
    kani::cover!(p.strat == 0.0, "gamma zero reachable");
    kani::cover!(p.strat == 2.0, "gamma two reachable");
}
for_lengths!(discount_average_strat, c08_discount_average_strat_n1, c08_discount_average_strat_n2, c08_discount_average_strat_n3, kani::stub(f64::powf, powf_observer));

// ---------------------------------------------------------------------------------------------
// IEEE comparison facts assumed by the Verus float prelude (loop-free over ALL pairs: complete)
// ---------------------------------------------------------------------------------------------

/// K.ieee_cmp_flip: a < b <=> b > a; == is symmetric and agrees with partial_cmp; an unordered pair
/// is unordered both ways (the axioms of ax_obeys in contracts/verus/prelude/floats.rs).
#[kani::proof]
fn ieee_cmp_flip() {
    use std::cmp::Ordering;
    let a: f64 = kani::any();
    let b: f64 = kani::any();
    assert!((a.partial_cmp(&b) == Some(Ordering::Less)) == (b.partial_cmp(&a) == Some(Ordering::Greater)), "K.ieee_cmp_flip: Less flips to Greater");
    assert!((a.partial_cmp(&b) == Some(Ordering::Equal)) == (b.partial_cmp(&a) == Some(Ordering::Equal)), "K.ieee_cmp_flip: Equal is symmetric");
    assert!(a.partial_cmp(&b).is_none() == b.partial_cmp(&a).is_none(), "K.ieee_cmp_flip: unordered both ways");
    assert!((a == b) == (a.partial_cmp(&b) == Some(Ordering::Equal)), "K.ieee_cmp_flip: == agrees with partial_cmp");
    assert!((a < b) == (a.partial_cmp(&b) == Some(Ordering::Less)) && (a > b) == (a.partial_cmp(&b) == Some(Ordering::Greater)), "K.ieee_cmp_flip: < and > agree with partial_cmp");
}

/// K.ieee_classification: the classification axioms of ax_ieee_class in
/// contracts/verus/prelude/floats.rs, for ALL f64 / all pairs (loop-free: complete).
#[kani::proof]
fn ieee_classification() {
    let a: f64 = kani::any();
    let b: f64 = kani::any();
    assert!(a.is_finite() == (!a.is_nan() && !a.is_infinite()), "K.ieee_classification: finite <=> not NaN and not infinite");
    assert!(!(a.is_nan() && a.is_infinite()), "K.ieee_classification: NaN is not infinite");
    assert!(a.partial_cmp(&b).is_none() == (a.is_nan() || b.is_nan()), "K.ieee_classification: unordered <=> a NaN operand");
    assert!(0.0f64.is_finite(), "K.ieee_classification: 0.0 is finite");
}

/// K.ieee_max_min_commute: f64::max / f64::min are commutative as far as partial_cmp against any third
/// value can tell (the max/min axioms of ax_obeys), for ALL triples (loop-free: complete).
#[kani::proof]
fn ieee_max_min_commute() {
    let a: f64 = kani::any();
    let b: f64 = kani::any();
    let c: f64 = kani::any();
    assert!(f64::max(a, b).partial_cmp(&c) == f64::max(b, a).partial_cmp(&c), "K.ieee_max_min_commute: max, left");
    assert!(c.partial_cmp(&f64::max(a, b)) == c.partial_cmp(&f64::max(b, a)), "K.ieee_max_min_commute: max, right");
    assert!(f64::min(a, b).partial_cmp(&c) == f64::min(b, a).partial_cmp(&c), "K.ieee_max_min_commute: min, left");
    assert!(c.partial_cmp(&f64::min(a, b)) == c.partial_cmp(&f64::min(b, a)), "K.ieee_max_min_commute: min, right");
}

