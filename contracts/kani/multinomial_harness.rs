//! Engine K harness for src/solve/multinomial.rs (child module, cfg(kani) only).
use super::*;
use rand::{Rng, RngCore};

/// deterministic generator: every 64-bit word it hands out is the same symbolic value
struct SymRng(u64);

impl RngCore for SymRng {
    fn next_u32(&mut self) -> u32 { self.0 as u32 }
    fn next_u64(&mut self) -> u64 { self.0 }
    fn fill_bytes(&mut self, dest: &mut [u8]) { let mut i = 0; while i < dest.len() { dest[i] = self.0 as u8; i += 1; } }
    fn try_fill_bytes(&mut self, dest: &mut [u8]) -> Result<(), rand::Error> { self.fill_bytes(dest); Ok(()) }
}

/// C10.K.multinomial.inverse_cdf (bounded: up to 4 weights, each any f64 in [0,1]; EVERY uniform
/// variate the generator can produce): the sampler returns the least k whose cumulative weight
/// (accumulated by the sampler's own sequential subtraction) is not below the variate, and the last
/// index otherwise; the last weight is never read.
#[kani::proof]
#[kani::unwind(6)]
fn c10_multinomial_inverse_cdf() {
    let p: [f64; 4] = [kani::any(), kani::any(), kani::any(), kani::any()];
    let n: usize = kani::any();
    kani::assume(n >= 1 && n <= 4);
    let mut i = 0;
    while i < 4 { kani::assume(p[i] >= 0.0 && p[i] <= 1.0); i += 1; }
    let x: u64 = kani::any();
    let u: f64 = SymRng(x).gen();
    assert!(u >= 0.0 && u < 1.0, "C10.K.multinomial: variate in [0,1)");
    let k = Multinomial::new(&p[..n]).sample(&mut SymRng(x));
    assert!(k < n, "C10.K.multinomial.index_in_range: index below the number of outcomes");
    // mirror: k-th cumulative interval by sequential subtraction
    let mut rem = u;
    let mut want = n - 1;
    let mut j = 0;
    while j + 1 < n {
        if p[j] < rem { rem -= p[j]; } else { want = j; break; }
        j += 1;
    }
    assert!(k == want, "C10.K.multinomial.inverse_cdf: returns k exactly when the variate lies in the k-th cumulative interval");
    kani::cover!(n == 4 && k == 2, "interior index reachable");
    kani::cover!(n == 4 && k == 3, "last index reachable");
}
