//! Engine K harnesses for src/lib.rs (compiled only under cfg(kani), as a child module of the crate
//! root so that private items are reachable).  Every harness calls the REAL function.
use super::*;

/// Player-one infoset sizes N1, player-two infoset sizes N2; ids are the positions.
fn infos(sizes: &[usize]) -> Box<[PlayerInfosetData<u8, u8>]> {
    let mut v = Vec::new();
    let mut i = 0;
    while i < sizes.len() {
        let mut acts = Vec::new();
        let mut a = 0;
        while a < sizes[i] {
            acts.push(a as u8);
            a += 1;
        }
        v.push(PlayerInfosetData {
            infoset: i as u8,
            actions: acts.into_boxed_slice(),
            prev_infoset: None,
        });
        i += 1;
    }
    v.into_boxed_slice()
}

fn game(one: &[usize], two: &[usize], single_one: &[(u8, u8)]) -> Game<u8, u8> {
    Game {
        chance_infosets: Box::new([]),
        player_infosets: [infos(one), infos(two)],
        single_infosets: [single_one.to_vec().into_boxed_slice(), Box::new([])],
        root: Node::Terminal(0.0),
    }
}

fn any_prob() -> f64 {
    let p: f64 = kani::any();
    kani::assume(p >= 0.0 && p <= 1.0);
    p
}

// ---------------------------------------------------------------------------------------------
// C18  Strategies::truncate
// ---------------------------------------------------------------------------------------------

/// bounded: player one has two infosets of two actions, player two has one of two actions.
/// Entries are any values in [0,1] with a positive entry per block (a valid profile up to
/// normalisation); threshold is any non-NaN f64.
fn truncate_setup() -> (Game<u8, u8>, [f64; 4], [f64; 2], f64) {
    let g = game(&[2, 2], &[2], &[]);
    truncate_inputs(g)
}

fn truncate_inputs(g: Game<u8, u8>) -> (Game<u8, u8>, [f64; 4], [f64; 2], f64) {
    let p1 = [any_prob(), any_prob(), any_prob(), any_prob()];
    let p2 = [any_prob(), any_prob()];
    kani::assume(p1[0] > 0.0 || p1[1] > 0.0);
    kani::assume(p1[2] > 0.0 || p1[3] > 0.0);
    kani::assume(p2[0] > 0.0 || p2[1] > 0.0);
    let h: f64 = kani::any();
    kani::assume(!h.is_nan());
    (g, p1, p2, h)
}

fn block_ok(b: &[f64]) -> bool {
    let mut some = false;
    let mut i = 0;
    while i < b.len() {
        if !(b[i].is_finite() && b[i] >= 0.0) {
            return false;
        }
        if b[i] > 0.0 {
            some = true;
        }
        i += 1;
    }
    some
}

/// C18.K.truncate.valid: whatever the threshold, every block ends finite, non-negative and with
/// at least one positive entry (a probability distribution up to rounding).
#[kani::proof]
#[kani::unwind(6)]
fn c18_truncate_valid() {
    let (g, p1, p2, h) = truncate_setup();
    let mut s = Strategies { game: &g, probs: [Box::new(p1), Box::new(p2)] };
    s.truncate(h);
    let [q1, q2] = &s.probs;
    kani::cover!(h >= p1[0] && h >= p1[1], "a block with no survivor is reachable");
    kani::cover!(h < 0.0, "negative threshold reachable");
    assert!(q1.len() == 4 && q2.len() == 2, "C18.K.truncate.valid: lengths preserved");
    assert!(block_ok(&q1[0..2]), "C18.K.truncate.valid: block 0 of player one is a distribution");
    assert!(block_ok(&q1[2..4]), "C18.K.truncate.valid: block 1 of player one is a distribution");
    assert!(block_ok(&q2[0..2]), "C18.K.truncate.valid: block 0 of player two is a distribution");
}

/// The common divisor the property speaks of: the sum of the entries of a block that exceed h,
/// written with the same std operations as the implementation so that both sides of the equality
/// below are the same expression (bit-precise comparison, no float theory needed).
fn survivors_sum(b: &[f64], h: f64) -> f64 {
    b.iter().filter(|p| p > &&h).sum()
}

fn check_block(orig: &[f64], new: &[f64], h: f64) {
    if orig[0] > h || orig[1] > h {
        let t = survivors_sum(orig, h);
        assert!(new[0] == if orig[0] > h { orig[0] / t } else { 0.0 }, "C18.K.truncate.survivors: first entry is p/T or 0");
        assert!(new[1] == if orig[1] > h { orig[1] / t } else { 0.0 }, "C18.K.truncate.survivors: second entry is p/T or 0");
    }
}

/// C18.K.truncate.survivors: in a block where some entry exceeds h, an entry that was <= h ends 0
/// and every entry > h ends p / T with T the sum of the block's entries > h (one divisor per block).
#[kani::proof]
#[kani::unwind(6)]
fn c18_truncate_survivors() {
    let (g, p1, p2, h) = truncate_setup();
    let mut s = Strategies { game: &g, probs: [Box::new(p1), Box::new(p2)] };
    s.truncate(h);
    let [q1, q2] = &s.probs;
    check_block(&p1[0..2], &q1[0..2], h);
    check_block(&p1[2..4], &q1[2..4], h);
    check_block(&p2[0..2], &q2[0..2], h);
    kani::cover!(p1[0] > h && !(p1[1] > h), "partial survival reachable");
}

/// smallest instance: one infoset of two actions for player one, nothing for player two
#[kani::proof]
#[kani::unwind(4)]
fn c18_truncate_survivors_min() {
    let g = game(&[2], &[], &[]);
    let p1 = [any_prob(), any_prob()];
    kani::assume(p1[0] > 0.0 || p1[1] > 0.0);
    let h: f64 = kani::any();
    kani::assume(!h.is_nan());
    let mut s = Strategies { game: &g, probs: [Box::new(p1), Box::new([])] };
    s.truncate(h);
    let [q1, _] = &s.probs;
    check_block(&p1[0..2], &q1[0..2], h);
    kani::cover!(p1[0] > h && !(p1[1] > h), "partial survival reachable");
}
