//! Engine K harnesses for src/lib.rs (compiled only under cfg(kani), as a child module of the crate
//! root so that private items are reachable).  Every harness calls the REAL function.
use super::*;

/// Player-one infoset sizes N1, player-two infoset sizes N2; ids are the positions.
fn infos(sizes: &[usize]) -> Box<[PlayerInfosetData<u8, u8>]> {
    let mut v = Vec::new();
    let mut i = 0;
    while i < sizes.len() {
        let mut acts = Vec::new();
        let mut a = 0;
        while a < sizes[i] {
            acts.push(a as u8);
            a += 1;
        }
        v.push(PlayerInfosetData {
            infoset: i as u8,
            actions: acts.into_boxed_slice(),
            prev_infoset: None,
        });
        i += 1;
    }
    v.into_boxed_slice()
}

fn game(one: &[usize], two: &[usize], single_one: &[(u8, u8)]) -> Game<u8, u8> {
    Game {
        chance_infosets: Box::new([]),
        player_infosets: [infos(one), infos(two)],
        single_infosets: [single_one.to_vec().into_boxed_slice(), Box::new([])],
        root: Node::Terminal(0.0),
    }
}

fn any_prob() -> f64 {
    let p: f64 = kani::any();
    kani::assume(p >= 0.0 && p <= 1.0);
    p
}

// ---------------------------------------------------------------------------------------------
// C18  Strategies::truncate
// ---------------------------------------------------------------------------------------------

/// bounded: player one has two infosets of two actions, player two has one of two actions.
/// Entries are any values in [0,1] with a positive entry per block (a valid profile up to
/// normalisation); threshold is any non-NaN f64.
fn truncate_setup() -> (Game<u8, u8>, [f64; 4], [f64; 2], f64) {
    let g = game(&[2, 2], &[2], &[]);
    truncate_inputs(g)
}

fn truncate_inputs(g: Game<u8, u8>) -> (Game<u8, u8>, [f64; 4], [f64; 2], f64) {
    let p1 = [any_prob(), any_prob(), any_prob(), any_prob()];
    let p2 = [any_prob(), any_prob()];
    kani::assume(p1[0] > 0.0 || p1[1] > 0.0);
    kani::assume(p1[2] > 0.0 || p1[3] > 0.0);
    kani::assume(p2[0] > 0.0 || p2[1] > 0.0);
    let h: f64 = kani::any();
    kani::assume(!h.is_nan());
    (g, p1, p2, h)
}

fn block_ok(b: &[f64]) -> bool {
    let mut some = false;
    let mut i = 0;
    while i < b.len() {
        if !(b[i].is_finite() && b[i] >= 0.0) {
            return false;
        }
        if b[i] > 0.0 {
            some = true;
        }
        i += 1;
    }
    some
}

/// C18.K.truncate.valid: whatever the threshold, every block ends finite, non-negative and with
/// at least one positive entry (a probability distribution up to rounding).
#[kani::proof]
#[kani::unwind(6)]
fn c18_truncate_valid() {
    let (g, p1, p2, h) = truncate_setup();
    let mut s = Strategies { game: &g, probs: [Box::new(p1), Box::new(p2)] };
    s.truncate(h);
    let [q1, q2] = &s.probs;
    kani::cover!(h >= p1[0] && h >= p1[1], "a block with no survivor is reachable");
    kani::cover!(h < 0.0, "negative threshold reachable");
    assert!(q1.len() == 4 && q2.len() == 2, "C18.K.truncate.valid: lengths preserved");
    assert!(block_ok(&q1[0..2]), "C18.K.truncate.valid: block 0 of player one is a distribution");
    assert!(block_ok(&q1[2..4]), "C18.K.truncate.valid: block 1 of player one is a distribution");
    assert!(block_ok(&q2[0..2]), "C18.K.truncate.valid: block 0 of player two is a distribution");
}

/// C18.K.truncate.zeroed: in every block (of every player, wherever it is stored) in which some
/// entry exceeds h, every entry that does not exceed h ends exactly 0.0 -- "exactly those actions".
#[kani::proof]
#[kani::unwind(6)]
fn c18_truncate_zeroed() {
    let (g, p1, p2, h) = truncate_setup();
    let mut s = Strategies { game: &g, probs: [Box::new(p1), Box::new(p2)] };
    s.truncate(h);
    let [q1, q2] = &s.probs;
    let mut b = 0;
    while b < 2 {
        let (x, y) = (p1[2 * b], p1[2 * b + 1]);
        if x > h || y > h {
            assert!(x > h || q1[2 * b] == 0.0, "C18.K.truncate.zeroed: player one, entry <= h not removed");
            assert!(y > h || q1[2 * b + 1] == 0.0, "C18.K.truncate.zeroed: player one, entry <= h not removed");
        }
        b += 1;
    }
    if p2[0] > h || p2[1] > h {
        assert!(p2[0] > h || q2[0] == 0.0, "C18.K.truncate.zeroed: player two, entry <= h not removed");
        assert!(p2[1] > h || q2[1] == 0.0, "C18.K.truncate.zeroed: player two, entry <= h not removed");
    }
    kani::cover!(!(p1[0] > h || p1[1] > h) && p1[2] > h && !(p1[3] > h), "flat block before a partially truncated block");
}

// ---------------------------------------------------------------------------------------------
// C01 / C02  accessors (loop-free over all f64: complete proofs)
// ---------------------------------------------------------------------------------------------

/// C01.K.StrategiesInfo: player two's utility is the negation of player one's, per-player regret
/// selects the player's entry, total regret is the larger of the two (IEEE max).
#[kani::proof]
fn c01_strategies_info_accessors() {
    let util: f64 = kani::any();
    let regrets: [f64; 2] = [kani::any(), kani::any()];
    let info = StrategiesInfo { util, regrets };
    assert!(info.player_utility(PlayerNum::One).to_bits() == util.to_bits(), "C01.K.StrategiesInfo: utility of player one");
    assert!(info.player_utility(PlayerNum::Two).to_bits() == (-util).to_bits(), "C01.K.StrategiesInfo: utility of player two is the negation");
    assert!(info.player_regret(PlayerNum::One).to_bits() == regrets[0].to_bits(), "C01.K.StrategiesInfo: regret of player one");
    assert!(info.player_regret(PlayerNum::Two).to_bits() == regrets[1].to_bits(), "C01.K.StrategiesInfo: regret of player two");
    assert!(info.regret().to_bits() == f64::max(regrets[0], regrets[1]).to_bits(), "C01.K.StrategiesInfo: total regret is the larger player regret");
}

/// C02.K.RegretBound.max: the total bound is the larger of the two per-player bounds.
#[kani::proof]
fn c02_regret_bound_accessors() {
    let regrets: [f64; 2] = [kani::any(), kani::any()];
    let b = RegretBound::new(regrets);
    assert!(b.player_regret_bound(PlayerNum::One).to_bits() == regrets[0].to_bits(), "C02.K.RegretBound: bound of player one");
    assert!(b.player_regret_bound(PlayerNum::Two).to_bits() == regrets[1].to_bits(), "C02.K.RegretBound: bound of player two");
    assert!(b.regret_bound().to_bits() == f64::max(regrets[0], regrets[1]).to_bits(), "C02.K.RegretBound.max: total bound is the larger per-player bound");
    if regrets[0] >= 0.0 && regrets[1] >= 0.0 {
        assert!(b.regret_bound() >= 0.0, "C02.K.RegretBound.max: non-negative");
    }
}

/// PlayerNum::ind / ind_mut two-case spec (cited by the Verus units as the contract of the
/// external_body declarations in prelude/playernum.rs).
#[kani::proof]
fn playernum_ind() {
    let mut arr: [u32; 2] = [kani::any(), kani::any()];
    let orig = arr;
    assert!(*PlayerNum::One.ind(&arr) == orig[0] && *PlayerNum::Two.ind(&arr) == orig[1], "playernum_ind: ind selects index 0 / 1");
    let v: u32 = kani::any();
    let who: bool = kani::any();
    let num = if who { PlayerNum::One } else { PlayerNum::Two };
    *num.ind_mut(&mut arr) = v;
    if who {
        assert!(arr[0] == v && arr[1] == orig[1], "playernum_ind: ind_mut writes index 0 only");
    } else {
        assert!(arr[1] == v && arr[0] == orig[0], "playernum_ind: ind_mut writes index 1 only");
    }
}

// ---------------------------------------------------------------------------------------------
// C19  Strategies::distance
// ---------------------------------------------------------------------------------------------

/// exact models of powf for the two exponents used (CBMC's powf is a nondeterministic
/// over-approximation): x^1 == x, x^2 == x*x
fn powf_model(x: f64, p: f64) -> f64 {
    if p == 1.0 { x } else { x * x }
}

fn any_exponent() -> f64 {
    let two: bool = kani::any();
    if two { 2.0 } else { 1.0 }
}

/// bounded: player one has one infoset of two actions, player two has NO multi-action infoset.
fn distance_setup() -> (Game<u8, u8>, [f64; 2], [f64; 2]) {
    let g = game(&[2], &[], &[]);
    let l = [any_prob(), any_prob()];
    let r = [any_prob(), any_prob()];
    (g, l, r)
}

fn distance_pair(p: f64) -> ([f64; 2], [f64; 2], [f64; 2], [f64; 2]) {
    let (g, l, r) = distance_setup();
    let a = Strategies { game: &g, probs: [Box::new(l), Box::new([])] };
    let b = Strategies { game: &g, probs: [Box::new(r), Box::new([])] };
    (l, r, a.distance(&b, p), b.distance(&a, p))
}

/// C19.K.distance.not_nan: a number >= 0 for both players, also for the player without
/// multi-action infosets (whose distance is 0).
#[kani::proof]
#[kani::unwind(5)]
#[kani::stub(f64::powf, powf_model)]
fn c19_distance_not_nan() {
    let p = any_exponent();
    let (_, _, d, _) = distance_pair(p);
    assert!(!d[0].is_nan() && !d[1].is_nan(), "C19.K.distance.not_nan: distance is a number for both players");
    assert!(d[0] >= 0.0 && d[1] >= 0.0, "C19.K.distance.nonneg: distance is non-negative");
    assert!(d[1] == 0.0, "C19.K.distance.empty_player: a player without multi-action infosets has distance 0");
    kani::cover!(p == 2.0 && d[0] > 0.0, "p = 2 with a positive distance reachable");
}

fn any_grid() -> f64 {
    let k: u8 = kani::any();
    kani::assume(k <= 4);
    k as f64 * 0.25
}

fn distance_pair_grid(p: f64) -> ([f64; 2], [f64; 2], [f64; 2], [f64; 2]) {
    let g = game(&[2], &[], &[]);
    let l = [any_grid(), any_grid()];
    let r = [any_grid(), any_grid()];
    let a = Strategies { game: &g, probs: [Box::new(l), Box::new([])] };
    let b = Strategies { game: &g, probs: [Box::new(r), Box::new([])] };
    (l, r, a.distance(&b, p), b.distance(&a, p))
}

/// C19.K.distance.symmetric (grid): d(a, b) == d(b, a) for all entries on the grid {0, 1/4, .., 1}.
#[kani::proof]
#[kani::unwind(5)]
#[kani::stub(f64::powf, powf_model)]
fn c19_distance_symmetric_grid() {
    let p = any_exponent();
    let (_, _, d, e) = distance_pair_grid(p);
    assert!(d[0].to_bits() == e[0].to_bits() && d[1].to_bits() == e[1].to_bits(), "C19.K.distance.symmetric: symmetric in its arguments");
}

/// C19.K.distance.symmetric: d(a, b) == d(b, a) bit for bit, all entries in [0,1].
#[kani::proof]
#[kani::unwind(5)]
#[kani::stub(f64::powf, powf_model)]
fn c19_distance_symmetric() {
    let p = any_exponent();
    let (_, _, d, e) = distance_pair(p);
    assert!(d[0].to_bits() == e[0].to_bits() && d[1].to_bits() == e[1].to_bits(), "C19.K.distance.symmetric: symmetric in its arguments");
}

/// C19.K.distance.zero_iff_equal: zero for coinciding profiles; positive (at p = 1) when they differ.
#[kani::proof]
#[kani::unwind(5)]
#[kani::stub(f64::powf, powf_model)]
fn c19_distance_zero_iff_equal() {
    let p = any_exponent();
    let (l, r, d, _) = distance_pair(p);
    if l[0] == r[0] && l[1] == r[1] {
        assert!(d[0] == 0.0, "C19.K.distance.zero_on_equal: coinciding profiles have distance 0");
    }
    if p == 1.0 && (l[0] != r[0] || l[1] != r[1]) {
        assert!(d[0] > 0.0, "C19.K.distance.positive_when_different: differing profiles have positive distance");
    }
    kani::cover!(l[0] == r[0] && l[1] == r[1], "equal profiles reachable");
}

/// C19.K.distance.range (KNOWN FINDING witness): disjoint supports at p = 1 give 2.0 > 1.
#[kani::proof]
#[kani::unwind(5)]
#[kani::stub(f64::powf, powf_model)]
fn c19_distance_range_upper() {
    let (g, l, r) = distance_setup();
    let p = any_exponent();
    let a = Strategies { game: &g, probs: [Box::new(l), Box::new([])] };
    let b = Strategies { game: &g, probs: [Box::new(r), Box::new([])] };
    let d = a.distance(&b, p);
    assert!(d[0] <= 1.0, "C19.K.distance.range_upper: distance is at most 1");
}

/// residual of the known finding (grid {0, 1/4, .., 1}, p in {1, 2}): outside the documented failing
/// class (per-infoset mass sum_i |l_i - r_i|^p above one) the bound holds, and the result never
/// exceeds the per-infoset maximum 2 -- any OTHER way of leaving [0,1] is still reported.
#[kani::proof]
#[kani::unwind(5)]
#[kani::stub(f64::powf, powf_model)]
fn c19_distance_range_residual() {
    let p = any_exponent();
    let (l, r, d, _) = distance_pair_grid(p);
    let mut mass = 0.0;
    mass += powf_model((l[0] - r[0]).abs(), p);
    mass += powf_model((l[1] - r[1]).abs(), p);
    if mass <= 1.0 {
        assert!(d[0] <= 1.0, "C19.K.distance.range_residual: at most 1 whenever the per-infoset mass is at most 1");
    }
    assert!(d[0] <= 2.0, "C19.K.distance.range_residual: never above the per-infoset maximum 2");
    kani::cover!(mass <= 1.0 && d[0] > 0.5, "non-trivial residual case reachable");
    kani::cover!(mass > 1.0, "known failing class reachable");
}

/// C19.K.distance.panics: profiles of different games panic.
#[kani::proof]
#[kani::unwind(5)]
#[kani::should_panic]
#[kani::stub(f64::powf, powf_model)]
#[kani::stub(std::fmt::format, lib_fmt_stub)]
fn c19_distance_panics_other_game() {
    let (g, l, r) = distance_setup();
    let g2 = game(&[2], &[], &[]);
    let a = Strategies { game: &g, probs: [Box::new(l), Box::new([])] };
    let b = Strategies { game: &g2, probs: [Box::new(r), Box::new([])] };
    let _ = a.distance(&b, 1.0);
}

/// C19.K.distance.panics: profiles of two different games panic also when player one has NO
/// multi-action infoset in either game (two distinct games must never compare equal).
#[kani::proof]
#[kani::unwind(5)]
#[kani::should_panic]
#[kani::stub(f64::powf, powf_model)]
#[kani::stub(std::fmt::format, lib_fmt_stub)]
fn c19_distance_panics_other_game_empty() {
    let g = game(&[], &[2], &[]);
    let g2 = game(&[], &[2], &[]);
    let r = [any_prob(), any_prob()];
    let a = Strategies { game: &g, probs: [Box::new([]), Box::new(r)] };
    let b = Strategies { game: &g2, probs: [Box::new([]), Box::new(r)] };
    let _ = a.distance(&b, 1.0);
}

/// C19.K.distance.panics: a non-positive (or NaN) exponent panics.
#[kani::proof]
#[kani::unwind(5)]
#[kani::should_panic]
#[kani::stub(f64::powf, powf_model)]
#[kani::stub(std::fmt::format, lib_fmt_stub)]
fn c19_distance_panics_nonpositive_p() {
    let (g, l, r) = distance_setup();
    let a = Strategies { game: &g, probs: [Box::new(l), Box::new([])] };
    let b = Strategies { game: &g, probs: [Box::new(r), Box::new([])] };
    let p: f64 = kani::any();
    kani::assume(!(p > 0.0));
    let _ = a.distance(&b, p);
}

/// C19.K.distance.panics: the exponent is checked whatever the game looks like -- also when neither
/// player has a multi-action infoset (nothing to sum over).
#[kani::proof]
#[kani::unwind(5)]
#[kani::should_panic]
#[kani::stub(f64::powf, powf_model)]
#[kani::stub(std::fmt::format, lib_fmt_stub)]
fn c19_distance_panics_nonpositive_p_empty() {
    let g = game(&[], &[], &[]);
    let a = Strategies { game: &g, probs: [Box::new([]), Box::new([])] };
    let b = Strategies { game: &g, probs: [Box::new([]), Box::new([])] };
    let p: f64 = kani::any();
    kani::assume(!(p > 0.0));
    let _ = a.distance(&b, p);
}

fn lib_fmt_stub(_: std::fmt::Arguments<'_>) -> String {
    String::new()
}

// ---------------------------------------------------------------------------------------------
// C13  named view (bounded)
// ---------------------------------------------------------------------------------------------

/// C13.K.named.len_prefix + content: player one has infosets of 2 and 3 actions plus one
/// single-action infoset; entries are any probabilities (zeros allowed).  At EVERY prefix of the
/// iteration the advertised length equals the number of items subsequently yielded -- for the infoset
/// iterator and for each action iterator -- and the items are exactly the positive-probability
/// actions with their stored probabilities; the single infoset comes with probability one.
#[kani::proof]
#[kani::unwind(8)]
fn c13_named_len_prefix_and_content() {
    let g = game(&[2, 3], &[], &[(9, 4)]);
    let p1 = [any_prob(), any_prob(), any_prob(), any_prob(), any_prob()];
    let s = Strategies { game: &g, probs: [Box::new(p1), Box::new([])] };
    let [mut one, mut two] = s.as_named();
    assert!(two.len() == 0 && two.next().is_none(), "C13.K.named: player two has nothing");
    let sizes = [2usize, 3, 1];
    let offs = [0usize, 2, 5];
    let mut k = 0;
    while k < 3 {
        assert!(one.len() == 3 - k, "C13.K.named.len_prefix: infoset iterator length at every prefix");
        let (info, mut acts) = one.next().unwrap();
        if k < 2 {
            assert!(*info == k as u8, "C13.K.named.content: infosets in order");
            // expected remaining positive entries
            let mut a = 0;
            while a < sizes[k] {
                let mut remaining = 0;
                let mut b = a;
                while b < sizes[k] { if p1[offs[k] + b] > 0.0 { remaining += 1; } b += 1; }
                assert!(acts.len() == remaining, "C13.K.named.len_prefix: action iterator length at every prefix");
                if p1[offs[k] + a] > 0.0 {
                    let (act, pr) = acts.next().unwrap();
                    assert!(*act == a as u8 && pr.to_bits() == p1[offs[k] + a].to_bits(), "C13.K.named.content: positive actions with their stored probability");
                }
                a += 1;
            }
            assert!(acts.len() == 0 && acts.next().is_none(), "C13.K.named.len_prefix: exhausted action iterator");
        } else {
            assert!(*info == 9, "C13.K.named.content: single-action infoset listed");
            assert!(acts.len() == 1, "C13.K.named.len_prefix: single action iterator length before");
            let (act, pr) = acts.next().unwrap();
            assert!(*act == 4 && pr == 1.0, "C13.K.named.content: single action with probability one");
            assert!(acts.len() == 0 && acts.next().is_none(), "C13.K.named.len_prefix: single action iterator length after");
        }
        k += 1;
    }
    assert!(one.len() == 0 && one.next().is_none(), "C13.K.named.len_prefix: exhausted infoset iterator");
}

// ---------------------------------------------------------------------------------------------
// C14  strat_into_box_slow (scan-based import), one player
// ---------------------------------------------------------------------------------------------

fn any_name() -> u8 {
    let x: u8 = kani::any();
    kani::assume(x == 0 || x == 1 || x == 3 || x == 5 || x == 7 || x == 9);
    x
}

fn legal_weight(w: f64) -> bool { w >= 0.0 && w.is_finite() }

/// any f64 weight, except that legal weights are at most 1e300 so that an infoset total cannot
/// overflow to +inf (with an infinite total every weight normalises to 0 -- "weight divided by the
/// infoset total" still holds literally, but the quotient inf/inf-free claim of CBMC's NaN check
/// does not concern the property)
fn any_weight() -> f64 {
    let w: f64 = kani::any();
    kani::assume(!legal_weight(w) || w <= 1e300);
    w
}

/// reference model of the import rules, written from the property statement, for ONE player whose
/// game part is: multi-action infoset `0` with actions {0, 1}; single-action infoset `7` with action 3.
struct Model { bad_infoset: bool, bad_action: bool, bad_prob: bool, single_seen: bool, w: [f64; 2] }

impl Model {
    fn new() -> Self { Model { bad_infoset: false, bad_action: false, bad_prob: false, single_seen: false, w: [0.0; 2] } }
    fn feed(&mut self, info: u8, a: u8, x: f64) {
        if info != 0 && info != 7 { self.bad_infoset = true; return; }
        if !legal_weight(x) { self.bad_prob = true; }
        if info == 0 && a != 0 && a != 1 { self.bad_action = true; }
        if info == 7 && a != 3 { self.bad_action = true; }
        if info == 0 && (a == 0 || a == 1) && legal_weight(x) { self.w[a as usize] = x; }   // last write wins
        if info == 7 && a == 3 && legal_weight(x) { self.single_seen = true; }
    }
    fn uninit(&self) -> bool { !self.single_seen || self.w[0] + self.w[1] == 0.0 }
    fn all_ok(&self) -> bool { !self.bad_infoset && !self.bad_action && !self.bad_prob && !self.uninit() }
    fn check(&self, res: Result<Box<[f64]>, StratError>) {
        match res {
            Ok(dense) => {
                assert!(self.all_ok(), "C14.K.import_slow.accepts_iff: accepted only if every rule holds");
                assert!(dense.len() == 2, "C14.K.import_slow.values: one slot per action");
                assert!(self.w[0] != 0.0 || dense[0] == 0.0, "C14.K.import_slow.values: zero / unspecified / overridden-by-zero action ends 0");
                assert!(self.w[1] != 0.0 || dense[1] == 0.0, "C14.K.import_slow.values: zero / unspecified / overridden-by-zero action ends 0");
                assert!(dense[0] >= 0.0 && dense[1] >= 0.0, "C14.K.import_slow.values: non-negative numbers");
            }
            Err(kind) => {
                assert!(!self.all_ok(), "C14.K.import_slow.accepts_iff: rejected only if some rule is violated");
                match kind {
                    StratError::InvalidInfoset => assert!(self.bad_infoset, "C14.K.import_slow.error_kind: InvalidInfoset only for an unknown infoset"),
                    StratError::InvalidAction => assert!(self.bad_action, "C14.K.import_slow.error_kind: InvalidAction only for an illegal action"),
                    StratError::InvalidProbability => assert!(self.bad_prob, "C14.K.import_slow.error_kind: InvalidProbability only for a negative / non-finite weight"),
                    StratError::UninitializedInfoset => assert!(self.uninit(), "C14.K.import_slow.error_kind: UninitializedInfoset only for an uncovered infoset"),
                }
            }
        }
    }
}

/// C14.K.import_slow (bounded): two entries of one (action, weight) pair each with CONCRETE names
/// (symbolic names exhaust CBMC: > 22 GB) and ANY f64 weights; one harness per name pattern below.
fn import_case(n0: (u8, u8), n1: (u8, u8), with_single: bool) {
    let infos = infos(&[2]);
    let singles_arr: [(u8, u8); 1] = [(7, 3)];
    let singles: &[(u8, u8)] = if with_single { &singles_arr } else { &[] };
    let e: [(u8, [(u8, f64); 1]); 2] = [(n0.0, [(n0.1, any_weight())]), (n1.0, [(n1.1, any_weight())])];
    let mut m = Model::new();
    if !with_single { m.single_seen = true; }
    let known = |i: u8| i == 0 || (with_single && i == 7);
    if !known(e[0].0) { m.bad_infoset = true; } else { m.feed(e[0].0, e[0].1[0].0, e[0].1[0].1); }
    if !known(e[1].0) { m.bad_infoset = true; } else if !m.bad_infoset { m.feed(e[1].0, e[1].1[0].0, e[1].1[0].1); }
    let res = Game::<u8, u8>::strat_into_box_slow(e, &infos, singles);
    m.check(res);
}
/// multi infoset then the single infoset: the ordinary accepted shape
#[kani::proof] #[kani::unwind(5)] fn c14_import_case_multi_single() { import_case((0, 1), (7, 3), true); }
/// single infoset first, then the multi infoset (arbitrary order)
#[kani::proof] #[kani::unwind(5)] fn c14_import_case_single_multi() { import_case((7, 3), (0, 0), true); }
/// the same infoset-action entry twice: the later weight overrides the earlier one
#[kani::proof] #[kani::unwind(5)] fn c14_import_case_repeat() { import_case((0, 0), (0, 0), false); }
/// two different actions of the multi infoset given in two entries
#[kani::proof] #[kani::unwind(5)] fn c14_import_case_two_actions() { import_case((0, 1), (0, 0), false); }
/// single infoset never mentioned
#[kani::proof] #[kani::unwind(5)] fn c14_import_case_missing_single() { import_case((0, 0), (0, 1), true); }
/// an infoset the player does not have
#[kani::proof] #[kani::unwind(5)] fn c14_import_case_unknown_infoset() { import_case((0, 0), (9, 0), false); }
/// an action the multi infoset does not have
#[kani::proof] #[kani::unwind(5)] fn c14_import_case_illegal_action() { import_case((0, 5), (0, 0), false); }
/// a wrong action for the single infoset
#[kani::proof] #[kani::unwind(5)] fn c14_import_case_illegal_single_action() { import_case((0, 0), (7, 0), true); }

// ---------------------------------------------------------------------------------------------
// C01  get_info on one concrete perfect-recall tree (bounded stand-in for the bottom-up loop of
// optimal_deviations, which is not under a Verus contract)
// ---------------------------------------------------------------------------------------------

fn pinfo(id: u8, n: usize, prev: Option<usize>) -> PlayerInfosetData<u8, u8> {
    let mut acts = Vec::new();
    let mut a = 0;
    while a < n { acts.push(a as u8); a += 1; }
    PlayerInfosetData { infoset: id, actions: acts.into_boxed_slice(), prev_infoset: prev }
}

/// P1 at x: safe -> 0 | risk -> P2 at z: L -> 3 | R -> P1 at y: c -> 5 | d -> 2.   (y follows x)
fn recall_game() -> Game<u8, u8> {
    let y = Node::Player(Player { num: PlayerNum::One, infoset: 1, actions: Box::new([Node::Terminal(5.0), Node::Terminal(2.0)]) });
    let z = Node::Player(Player { num: PlayerNum::Two, infoset: 0, actions: Box::new([Node::Terminal(3.0), y]) });
    let x = Node::Player(Player { num: PlayerNum::One, infoset: 0, actions: Box::new([Node::Terminal(0.0), z]) });
    Game {
        chance_infosets: Box::new([]),
        player_infosets: [Box::new([pinfo(0, 2, None), pinfo(1, 2, Some(0))]), Box::new([pinfo(0, 2, None)])],
        single_infosets: [Box::new([]), Box::new([])],
        root: x,
    }
}

/// one of (1,0), (1/2,1/2), (0,1): all arithmetic on these is exact
fn any_dyadic_pair() -> (f64, f64) {
    let k: u8 = kani::any();
    kani::assume(k < 3);
    if k == 0 { (1.0, 0.0) } else if k == 1 { (0.5, 0.5) } else { (0.0, 1.0) }
}

fn fmax(a: f64, b: f64) -> f64 { if a > b { a } else { b } }

/// C01.K.get_info.recall_tree (bounded: this tree; every profile with probabilities in {0,1/2,1},
/// including the pure profiles that make infoset y unreachable): utility and both regrets equal the
/// brute-force values over pure deviations.
#[kani::proof]
#[kani::unwind(8)]
fn c01_get_info_recall_tree() {
    let g = recall_game();
    let (x0, x1) = any_dyadic_pair();
    let (y0, y1) = any_dyadic_pair();
    let (z0, z1) = any_dyadic_pair();
    let s = Strategies { game: &g, probs: [Box::new([x0, x1, y0, y1]), Box::new([z0, z1])] };
    let info = s.get_info();
    // reference, written from the definition
    let vy = y0 * 5.0 + y1 * 2.0;
    let vz = z0 * 3.0 + z1 * vy;
    let util = x0 * 0.0 + x1 * vz;
    // player one deviations: best of safe, risk with the better of c / d
    let br_y = 5.0;
    let br_one = fmax(0.0, z0 * 3.0 + z1 * br_y);
    // player two deviations (minimises player one's payoff): L or R after risk
    let br_two = -(x1 * if 3.0 < vy { 3.0 } else { vy });
    assert!(info.player_utility(PlayerNum::One) == util, "C01.K.get_info.recall_tree: utility is the expected payoff");
    assert!(info.player_regret(PlayerNum::One) == fmax(br_one - util, 0.0), "C01.K.get_info.recall_tree: player one's regret is the best unilateral gain");
    assert!(info.player_regret(PlayerNum::Two) == fmax(br_two + util, 0.0), "C01.K.get_info.recall_tree: player two's regret is the best unilateral gain");
    kani::cover!(z1 == 0.0 && x1 == 0.0, "profile that makes the later infoset unreachable");
}

/// C01.K.expected.chance_tree (bounded: ONE concrete 6-node tree -- a chance node below a mixed
/// action of player one and a second chance node below it; the strategy entry and the chance
/// probabilities range over {0, 1/2, 1} / {1/4, 1/2, 3/4}; all arithmetic exact): the reported utility
/// is the reach-weighted sum of the terminal payoffs.
#[kani::proof]
#[kani::unwind(8)]
fn c01_expected_chance_tree() {
    // x: P1 {a0 -> chance c0 {T(1) | chance c1 {T(3) | T(5)}}, a1 -> T(0)}
    let c1 = Node::Chance(Chance { outcomes: Box::new([Node::Terminal(3.0), Node::Terminal(5.0)]), infoset: 1 });
    let c0 = Node::Chance(Chance { outcomes: Box::new([Node::Terminal(1.0), c1]), infoset: 0 });
    let x = Node::Player(Player { num: PlayerNum::One, infoset: 0, actions: Box::new([c0, Node::Terminal(0.0)]) });
    let k: u8 = kani::any();
    kani::assume(k < 3);
    let q = 0.25 * (k as f64 + 1.0); // 1/4, 1/2, 3/4
    let (s0, s1) = any_dyadic_pair();
    let chance = [ChanceInfosetData { probs: Box::new([q, 1.0 - q]) }, ChanceInfosetData { probs: Box::new([0.5, 0.5]) }];
    let one: [[f64; 2]; 1] = [[s0, s1]];
    let two: [[f64; 2]; 0] = [];
    let u = regret::expected(&x, &chance, [&one[..], &two[..]]);
    let want = s0 * (q * 1.0 + (1.0 - q) * (0.5 * 3.0 + 0.5 * 5.0)) + s1 * 0.0;
    assert!(u == want, "C01.K.expected.chance_tree: utility is the reach-weighted sum over terminals (nested chance below a mixed action)");
    kani::cover!(s0 == 0.5 && k == 0, "mixed action above an uneven chance node reachable");
}
