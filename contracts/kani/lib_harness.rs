//! Engine K harnesses for src/lib.rs (compiled only under cfg(kani), as a child module of the crate
//! root so that private items are reachable).  Every harness calls the REAL function.
use super::*;

/// Player-one infoset sizes N1, player-two infoset sizes N2; ids are the positions.
fn infos(sizes: &[usize]) -> Box<[PlayerInfosetData<u8, u8>]> {
    let mut v = Vec::new();
    let mut i = 0;
    while i < sizes.len() {
        let mut acts = Vec::new();
        let mut a = 0;
        while a < sizes[i] {
            acts.push(a as u8);
            a += 1;
        }
        v.push(PlayerInfosetData {
            infoset: i as u8,
            actions: acts.into_boxed_slice(),
            prev_infoset: None,
        });
        i += 1;
    }
    v.into_boxed_slice()
}

fn game(one: &[usize], two: &[usize], single_one: &[(u8, u8)]) -> Game<u8, u8> {
    Game {
        chance_infosets: Box::new([]),
        player_infosets: [infos(one), infos(two)],
        single_infosets: [single_one.to_vec().into_boxed_slice(), Box::new([])],
        root: Node::Terminal(0.0),
    }
}

fn any_prob() -> f64 {
    let p: f64 = kani::any();
    kani::assume(p >= 0.0 && p <= 1.0);
    p
}

// ---------------------------------------------------------------------------------------------
// C18  Strategies::truncate
// ---------------------------------------------------------------------------------------------

/// bounded: player one has two infosets of two actions, player two has one of two actions.
/// Entries are any values in [0,1] with a positive entry per block (a valid profile up to
/// normalisation); threshold is any non-NaN f64.
fn truncate_setup() -> (Game<u8, u8>, [f64; 4], [f64; 2], f64) {
    let g = game(&[2, 2], &[2], &[]);
    truncate_inputs(g)
}

fn truncate_inputs(g: Game<u8, u8>) -> (Game<u8, u8>, [f64; 4], [f64; 2], f64) {
    let p1 = [any_prob(), any_prob(), any_prob(), any_prob()];
    let p2 = [any_prob(), any_prob()];
    kani::assume(p1[0] > 0.0 || p1[1] > 0.0);
    kani::assume(p1[2] > 0.0 || p1[3] > 0.0);
    kani::assume(p2[0] > 0.0 || p2[1] > 0.0);
    let h: f64 = kani::any();
    kani::assume(!h.is_nan());
    (g, p1, p2, h)
}

fn block_ok(b: &[f64]) -> bool {
    let mut some = false;
    let mut i = 0;
    while i < b.len() {
        if !(b[i].is_finite() && b[i] >= 0.0) {
            return false;
        }
        if b[i] > 0.0 {
            some = true;
        }
        i += 1;
    }
    some
}

/// C18.K.truncate.valid: whatever the threshold, every block ends finite, non-negative and with
/// at least one positive entry (a probability distribution up to rounding).
#[kani::proof]
#[kani::unwind(6)]
fn c18_truncate_valid() {
    let (g, p1, p2, h) = truncate_setup();
    let mut s = Strategies { game: &g, probs: [Box::new(p1), Box::new(p2)] };
    s.truncate(h);
    let [q1, q2] = &s.probs;
    kani::cover!(h >= p1[0] && h >= p1[1], "a block with no survivor is reachable");
    kani::cover!(h < 0.0, "negative threshold reachable");
    assert!(q1.len() == 4 && q2.len() == 2, "C18.K.truncate.valid: lengths preserved");
    assert!(block_ok(&q1[0..2]), "C18.K.truncate.valid: block 0 of player one is a distribution");
    assert!(block_ok(&q1[2..4]), "C18.K.truncate.valid: block 1 of player one is a distribution");
    assert!(block_ok(&q2[0..2]), "C18.K.truncate.valid: block 0 of player two is a distribution");
}

/// C18.K.truncate.zeroed: in every block (of every player, wherever it is stored) in which some
/// entry exceeds h, every entry that does not exceed h ends exactly 0.0 -- "exactly those actions".
#[kani::proof]
#[kani::unwind(6)]
fn c18_truncate_zeroed() {
    let (g, p1, p2, h) = truncate_setup();
    let mut s = Strategies { game: &g, probs: [Box::new(p1), Box::new(p2)] };
    s.truncate(h);
    let [q1, q2] = &s.probs;
    let mut b = 0;
    while b < 2 {
        let (x, y) = (p1[2 * b], p1[2 * b + 1]);
        if x > h || y > h {
            assert!(x > h || q1[2 * b] == 0.0, "C18.K.truncate.zeroed: player one, entry <= h not removed");
            assert!(y > h || q1[2 * b + 1] == 0.0, "C18.K.truncate.zeroed: player one, entry <= h not removed");
        }
        b += 1;
    }
    if p2[0] > h || p2[1] > h {
        assert!(p2[0] > h || q2[0] == 0.0, "C18.K.truncate.zeroed: player two, entry <= h not removed");
        assert!(p2[1] > h || q2[1] == 0.0, "C18.K.truncate.zeroed: player two, entry <= h not removed");
    }
    kani::cover!(!(p1[0] > h || p1[1] > h) && p1[2] > h && !(p1[3] > h), "flat block before a partially truncated block");
}
