"""Engine K tables: harness modules, contract attributes, harness lists per property."""

MODULES = {
    "lib": dict(host="src/lib.rs", file="lib_harness.rs"),
    "multinomial": dict(host="src/solve/multinomial.rs", file="multinomial_harness.rs", prefix="solve::multinomial::"),
    "vanilla": dict(host="src/solve/vanilla.rs", file="vanilla_harness.rs", prefix="solve::vanilla::"),
    "data": dict(host="src/solve/data.rs", file="data_harness.rs", prefix="solve::data::"),
}

# contract attributes spliced above real fn items (bodies untouched)
ATTRS = []

def H(name, module, obligation, tier="quick", bounded=None, solver_cli=None, timeout=600, complete=False, group=None):
    return dict(name=name, path="%sverif_kani_%s::%s" % (MODULES[module].get("prefix", ""), module, name), module=module, obligation=obligation,
                tier=tier, bounded=bounded, solver_cli=solver_cli, timeout=timeout, complete=complete, group=group)

B3 = "slices of length <= 3; every element any finite f64 (regrets |r| <= 1e150 where stated); all u64 iteration numbers"
HARNESSES = {
    "C01": [
        H("c01_strategies_info_accessors", "lib", "C01.K.StrategiesInfo", complete=True),
        H("playernum_ind", "lib", "K.playernum_ind", complete=True),
        H("c01_expected_chance_tree", "lib", "C01.K.expected.chance_tree", tier="experimental", timeout=3600,
          bounded="ONE concrete 6-node tree with nested chance below a mixed action; probabilities from small dyadic sets"),
        H("c01_get_info_recall_tree", "lib", "C01.K.get_info.recall_tree", tier="experimental", timeout=3600,
          bounded="ONE concrete 7-node perfect-recall tree; every profile with probabilities in {0, 1/2, 1}"),
    ],
    "C11": [
        H("ieee_classification", "data", "K.ieee_classification", complete=True),
    ],
    "C13": [
        H("ieee_classification", "data", "K.ieee_classification", complete=True),
        H("c13_named_len_prefix_and_content", "lib", "C13.K.named.len_prefix",
          bounded="player one: infosets of 2 and 3 actions + one single-action infoset; entries any f64 in [0,1]"),
    ],
    "C14": [
        H("ieee_classification", "data", "K.ieee_classification", complete=True),
        H("c14_import_case_multi_single", "lib", "C14.K.import_slow.accepts_iff", bounded="one multi-action infoset (2 actions) [+ one single-action infoset]; 2 entries x 1 pair with the concrete name pattern `multi_single`; weights ANY f64 (legal ones <= 1e300)", group="safe_rust_big", tier="thorough", timeout=2400),
        H("c14_import_case_single_multi", "lib", "C14.K.import_slow.accepts_iff", bounded="one multi-action infoset (2 actions) [+ one single-action infoset]; 2 entries x 1 pair with the concrete name pattern `single_multi`; weights ANY f64 (legal ones <= 1e300)", group="safe_rust_big", tier="thorough", timeout=2400),
        H("c14_import_case_repeat", "lib", "C14.K.import_slow.accepts_iff", bounded="one multi-action infoset (2 actions) [+ one single-action infoset]; 2 entries x 1 pair with the concrete name pattern `repeat`; weights ANY f64 (legal ones <= 1e300)", group="safe_rust", timeout=1200),
        H("c14_import_case_two_actions", "lib", "C14.K.import_slow.accepts_iff", bounded="one multi-action infoset (2 actions) [+ one single-action infoset]; 2 entries x 1 pair with the concrete name pattern `two_actions`; weights ANY f64 (legal ones <= 1e300)", group="safe_rust", tier="thorough", timeout=2400),
        H("c14_import_case_missing_single", "lib", "C14.K.import_slow.accepts_iff", bounded="one multi-action infoset (2 actions) [+ one single-action infoset]; 2 entries x 1 pair with the concrete name pattern `missing_single`; weights ANY f64 (legal ones <= 1e300)", group="safe_rust", tier="thorough", timeout=2400),
        H("c14_import_case_unknown_infoset", "lib", "C14.K.import_slow.accepts_iff", bounded="one multi-action infoset (2 actions) [+ one single-action infoset]; 2 entries x 1 pair with the concrete name pattern `unknown_infoset`; weights ANY f64 (legal ones <= 1e300)", group="safe_rust", tier="thorough", timeout=2400),
        H("c14_import_case_illegal_action", "lib", "C14.K.import_slow.accepts_iff", bounded="one multi-action infoset (2 actions) [+ one single-action infoset]; 2 entries x 1 pair with the concrete name pattern `illegal_action`; weights ANY f64 (legal ones <= 1e300)", group="safe_rust"),
        H("c14_import_case_illegal_single_action", "lib", "C14.K.import_slow.accepts_iff", bounded="one multi-action infoset (2 actions) [+ one single-action infoset]; 2 entries x 1 pair with the concrete name pattern `illegal_single_action`; weights ANY f64 (legal ones <= 1e300)", group="safe_rust", tier="thorough", timeout=2400),
    ],
    "C19": [
        H("c19_distance_not_nan", "lib", "C19.K.distance.not_nan", bounded="one infoset of 2 actions / empty player; entries any f64 in [0,1]; p in {1, 2} (powf modelled exactly)"),
        H("c19_distance_symmetric_grid", "lib", "C19.K.distance.symmetric", bounded="one infoset of 2 actions; entries on the grid {0, 1/4, 1/2, 3/4, 1}; p in {1, 2}"),
        # full-domain symmetry: CaDiCaL did not decide it in 3600 s (cvc5 aborts on the boxed game) -> not run
        H("c19_distance_symmetric", "lib", "C19.K.distance.symmetric", bounded="as above, entries any f64 in [0,1]", tier="experimental", timeout=3600),
        H("c19_distance_zero_iff_equal", "lib", "C19.K.distance.zero_iff_equal", bounded="as above"),
        H("c19_distance_range_upper", "lib", "C19.K.distance.range_upper", bounded="as above"),
        H("c19_distance_range_residual", "lib", "C19.K.distance.range_residual", bounded="one infoset of 2 actions; entries on the grid {0, 1/4, 1/2, 3/4, 1}; p in {1, 2}"),
        H("c19_distance_panics_other_game", "lib", "C19.K.distance.panics", bounded="as above"),
        H("c19_distance_panics_other_game_empty", "lib", "C19.K.distance.panics", bounded="two games in which player one has no multi-action infoset"),
        H("c19_distance_panics_nonpositive_p", "lib", "C19.K.distance.panics", bounded="as above; p any f64 with !(p > 0)"),
        H("c19_distance_panics_nonpositive_p_empty", "lib", "C19.K.distance.panics", bounded="a game in which neither player has a multi-action infoset; p any f64 with !(p > 0)"),
    ],
    "C02": [
        H("c02_regret_bound_accessors", "lib", "C02.K.RegretBound.max", complete=True),
        H("c02_cum_regret_formula_n1", "data", "C02.K.cum_regret.formula", bounded=B3),
        H("c02_cum_regret_formula_n2", "data", "C02.K.cum_regret.formula", bounded=B3),
        H("c02_cum_regret_formula_n3", "data", "C02.K.cum_regret.formula", bounded=B3, tier="thorough", timeout=1800),
        H("c02_cum_regret_empty", "data", "C02.K.cum_regret.formula", bounded="empty slice; all iteration numbers"),
    ],
    "C05": [
        H("c05_avg_strat_distribution_n1", "data", "C05.K.avg_strat.distribution", bounded=B3),
        H("c05_avg_strat_distribution_n2", "data", "C05.K.avg_strat.distribution", bounded=B3),
        H("c05_avg_strat_distribution_n3", "data", "C05.K.avg_strat.distribution", bounded=B3, tier="thorough", timeout=1800),
        H("c05_regret_infoset_new", "data", "C05.K.RegretInfoset_new.uniform", bounded="1..3 actions"),
        H("c08_regret_match_positive_n1", "data", "C05.K.regret_match.distribution", bounded=B3),
        H("c08_regret_match_positive_n2", "data", "C05.K.regret_match.distribution", bounded=B3, tier="thorough", timeout=1800),
        H("c08_regret_match_positive_n3", "data", "C05.K.regret_match.distribution", bounded=B3, tier="experimental", timeout=1800),
        H("c05_regret_match_any_finite_n2", "data", "C05.K.regret_match.any_finite_regrets", bounded="2 actions; regrets ANY finite f64 (no magnitude bound): known finding D10"),
        H("c08_regret_match_fallbacks_n1", "data", "C05.K.regret_match.distribution", bounded=B3),
        H("c08_regret_match_fallbacks_n2", "data", "C05.K.regret_match.distribution", bounded=B3, tier="thorough", timeout=1800),
        H("c08_regret_match_fallbacks_n3", "data", "C05.K.regret_match.distribution", bounded=B3, tier="thorough", timeout=1800),
        H("c05_regret_match_softmax_pos_n1", "data", "C05.K.regret_match.softmax", bounded="1 action; weight 1.0; exp interval model"),
        H("c05_regret_match_softmax_neg_n1", "data", "C05.K.regret_match.softmax", bounded="1 action; weight -1e3; exp interval model"),
        H("c05_regret_match_softmax_pos_n2", "data", "C05.K.regret_match.softmax", bounded="2 actions, regrets any finite |r| <= 1e150; weight 1e3; exp interval model"),
        H("c05_regret_match_softmax_neg_n2", "data", "C05.K.regret_match.softmax", bounded="2 actions, regrets any finite |r| <= 1e150; weight -1e3; exp interval model"),
        H("c05_regret_match_softmax_pos_n3", "data", "C05.K.regret_match.softmax", bounded="3 actions; weight 1.0; exp interval model", tier="thorough", timeout=1800),
        H("c05_regret_match_softmax_neg_n3", "data", "C05.K.regret_match.softmax", bounded="3 actions; weight -1.0; exp interval model", tier="thorough", timeout=1800),
        H("c05_regret_match_softmax_anyw_n2", "data", "C05.K.regret_match.softmax", bounded="2 actions; any finite non-zero weight |w| <= 1e3; exp interval model", tier="thorough", timeout=3600),
        H("c02_cum_regret_formula_n1", "data", "C05.K.cum_regret.finite_nonneg", bounded=B3),
        H("c02_cum_regret_formula_n2", "data", "C05.K.cum_regret.finite_nonneg", bounded=B3),
        H("c02_cum_regret_formula_n3", "data", "C05.K.cum_regret.finite_nonneg", bounded=B3, tier="thorough", timeout=1800),
    ],
    "C08": [
        H("c08_presets", "data", "C08.K.presets", complete=True),
        H("c08_new_accepts", "data", "C08.K.new.accepts", complete=True),
        H("c08_new_rejects", "data", "C08.K.new.rejects", complete=True),
        H("c08_gen_discount_special", "data", "C08.K.gen_discount.special", complete=True),
        H("c08_regret_match_positive_n1", "data", "C08.K.regret_match.positive", bounded=B3),
        H("c08_regret_match_positive_n2", "data", "C08.K.regret_match.positive", bounded=B3, tier="thorough", timeout=1800),
        H("c08_regret_match_positive_n3", "data", "C08.K.regret_match.positive", bounded=B3, tier="experimental", timeout=1800),
        H("c08_regret_match_fallbacks_n1", "data", "C08.K.regret_match.fallbacks", bounded=B3),
        H("c08_regret_match_fallbacks_n2", "data", "C08.K.regret_match.fallbacks", bounded=B3, tier="thorough", timeout=1800),
        H("c08_regret_match_fallbacks_n3", "data", "C08.K.regret_match.fallbacks", bounded=B3, tier="thorough", timeout=1800),
        H("c08_discount_cum_regret_n1", "data", "C08.K.discount_cum_regret", bounded=B3, tier="thorough", timeout=1800),
        H("c08_discount_cum_regret_n2", "data", "C08.K.discount_cum_regret", bounded=B3, tier="thorough", timeout=1800),
        H("c08_discount_cum_regret_n3", "data", "C08.K.discount_cum_regret", bounded=B3, tier="experimental", timeout=1800),
        H("c08_discount_average_strat_n1", "data", "C08.K.discount_average_strat", bounded=B3, tier="experimental", timeout=1800),
        H("c08_discount_average_strat_n2", "data", "C08.K.discount_average_strat", bounded=B3, tier="experimental", timeout=1800),
        H("c08_discount_average_strat_n3", "data", "C08.K.discount_average_strat", bounded=B3, tier="experimental", timeout=1800),
    ],
    "C06": [
        H("c06_thread_threshold_reach", "vanilla", "C06.K.thread_threshold.reach", tier="experimental", timeout=7200,
          bounded="root decision node with three terminal children, target 3; strategy entries any f64 in [0,1]"),
    ],
    "C09": [
        H("ieee_cmp_flip", "data", "K.ieee_cmp_flip", complete=True),
        H("ieee_max_min_commute", "data", "K.ieee_max_min_commute", complete=True),
        # "thresholds that are zero or negative never shorten a run": every per-infoset bound the loops sum is >= 0
        H("c02_cum_regret_formula_n1", "data", "C09.K.cum_regret.nonneg", bounded=B3),
        H("c02_cum_regret_formula_n2", "data", "C09.K.cum_regret.nonneg", bounded=B3),
        H("c02_cum_regret_empty", "data", "C09.K.cum_regret.nonneg", bounded="empty slice; all iteration numbers"),
    ],
    "C10": [
        H("c10_multinomial_inverse_cdf", "multinomial", "C10.K.multinomial.inverse_cdf",
          bounded="1..4 weights, each any f64 in [0,1]; every 64-bit generator output"),
    ],
    "C18": [
        H("c18_truncate_valid", "lib", "C18.K.truncate.valid",
          bounded="infoset sizes {2,2} / {2}; entries any f64 in [0,1]; threshold any non-NaN f64"),
        H("c18_truncate_zeroed", "lib", "C18.K.truncate.zeroed",
          bounded="infoset sizes {2,2} / {2}; entries any f64 in [0,1]; threshold any non-NaN f64"),
    ],
}
