"""Engine K tables: harness modules, contract attributes, harness lists per property."""

MODULES = {
    "lib": dict(host="src/lib.rs", file="lib_harness.rs"),
}

# contract attributes spliced above real fn items (bodies untouched)
ATTRS = []

def H(name, module, obligation, tier="quick", bounded=None, solver_cli=None, timeout=600, complete=False):
    return dict(name=name, path="verif_kani_%s::%s" % (module, name), module=module, obligation=obligation,
                tier=tier, bounded=bounded, solver_cli=solver_cli, timeout=timeout, complete=complete)

HARNESSES = {
    "C18": [
        H("c18_truncate_valid", "lib", "C18.K.truncate.valid",
          bounded="infoset sizes {2,2} / {2}; entries any f64 in [0,1]; threshold any non-NaN f64"),
        H("c18_truncate_zeroed", "lib", "C18.K.truncate.zeroed",
          bounded="infoset sizes {2,2} / {2}; entries any f64 in [0,1]; threshold any non-NaN f64"),
    ],
}
