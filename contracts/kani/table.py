"""Engine K tables: harness modules, contract attributes, harness lists per property."""

MODULES = {
    "lib": dict(host="src/lib.rs", file="lib_harness.rs"),
    "data": dict(host="src/solve/data.rs", file="data_harness.rs", prefix="solve::data::"),
}

# contract attributes spliced above real fn items (bodies untouched)
ATTRS = [
    dict(file="src/solve/data.rs", path="impl RegretParams / fn gen_discount", lines=[
        "kani::requires(discount == f64::NEG_INFINITY || discount == 0.0 || discount == f64::INFINITY)",
        "kani::ensures(|r: &f64| (discount != f64::NEG_INFINITY || *r == 0.0) && (discount != 0.0 || *r == 0.5) && (discount != f64::INFINITY || *r == 1.0))",
    ]),
]

def H(name, module, obligation, tier="quick", bounded=None, solver_cli=None, timeout=600, complete=False):
    return dict(name=name, path="%sverif_kani_%s::%s" % (MODULES[module].get("prefix", ""), module, name), module=module, obligation=obligation,
                tier=tier, bounded=bounded, solver_cli=solver_cli, timeout=timeout, complete=complete)

B3 = "slices of length <= 3; every element any finite f64 (regrets |r| <= 1e150 where stated); all u64 iteration numbers"
HARNESSES = {
    "C02": [
        H("c02_cum_regret_formula", "data", "C02.K.cum_regret.formula", bounded=B3),
    ],
    "C05": [
        H("c05_avg_strat_distribution", "data", "C05.K.avg_strat.distribution", bounded=B3),
        H("c05_regret_infoset_new", "data", "C05.K.RegretInfoset_new.uniform", bounded="1..3 actions"),
        H("c08_regret_match_positive", "data", "C05.K.regret_match.distribution", bounded=B3),
        H("c08_regret_match_fallbacks", "data", "C05.K.regret_match.distribution", bounded=B3),
        H("c05_regret_match_softmax", "data", "C05.K.regret_match.softmax", bounded=B3 + "; exp replaced by a sound interval model"),
        H("c02_cum_regret_formula", "data", "C05.K.cum_regret.finite_nonneg", bounded=B3),
    ],
    "C08": [
        H("c08_presets", "data", "C08.K.presets", complete=True),
        H("c08_new_accepts", "data", "C08.K.new.accepts", complete=True),
        H("c08_new_rejects", "data", "C08.K.new.rejects", complete=True),
        H("c08_gen_discount_special", "data", "C08.K.gen_discount.special", complete=True),
        H("c08_regret_match_positive", "data", "C08.K.regret_match.positive", bounded=B3),
        H("c08_regret_match_fallbacks", "data", "C08.K.regret_match.fallbacks", bounded=B3),
        H("c08_discount_cum_regret", "data", "C08.K.discount_cum_regret", bounded=B3),
        H("c08_discount_average_strat", "data", "C08.K.discount_average_strat", bounded=B3),
    ],
    "C18": [
        H("c18_truncate_valid", "lib", "C18.K.truncate.valid",
          bounded="infoset sizes {2,2} / {2}; entries any f64 in [0,1]; threshold any non-NaN f64"),
        H("c18_truncate_zeroed", "lib", "C18.K.truncate.zeroed",
          bounded="infoset sizes {2,2} / {2}; entries any f64 in [0,1]; threshold any non-NaN f64"),
    ],
}
