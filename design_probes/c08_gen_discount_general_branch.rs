use vstd::prelude::*;
use vstd::std_specs::ops::*;
use vstd::std_specs::cmp::*;
use vstd::float::*;
verus! {

pub uninterp spec fn rv(x: f64) -> real;
pub uninterp spec fn rexp(x: real) -> real;
pub uninterp spec fn rln(x: real) -> real;

pub broadcast axiom fn ax_mul_req(a: f64, b: f64) ensures #[trigger] a.mul_req(b);
pub broadcast axiom fn ax_mul_val(a: f64, b: f64) ensures rv(#[trigger] a.mul_spec(b)) == rv(a) * rv(b);
pub broadcast axiom fn ax_sub_req(a: f64, b: f64) ensures #[trigger] a.sub_req(b);
pub broadcast axiom fn ax_sub_val(a: f64, b: f64) ensures rv(#[trigger] a.sub_spec(b)) == rv(a) - rv(b);
pub broadcast group ideal { ax_mul_req, ax_mul_val, ax_sub_req, ax_sub_val }
pub axiom fn ax_obeys()
    ensures <f64 as MulSpec>::obeys_mul_spec(), <f64 as SubSpec>::obeys_sub_spec(),
            <f64 as PartialEqSpec>::obeys_eq_spec(), rv(0.0f64) == 0real;

// real-analysis facts used (assumptions, listed): 
pub axiom fn ax_exp_pos(x: real) ensures rexp(x) > 0real;
pub axiom fn ax_exp_sub(x: real, y: real) ensures rexp(x - y) * rexp(y) == rexp(x);
pub axiom fn ax_exp_ln(x: real) requires x > 0real ensures rexp(rln(x)) == x;
pub axiom fn ax_exp_zero() ensures rexp(0real) == 1real;

// R5: libm / logaddexp boundary
#[verifier::external_body]
fn __ln(x: f64) -> (r: f64) ensures rv(r) == rln(rv(x)) { x.ln() }
#[verifier::external_body]
fn __exp(x: f64) -> (r: f64) ensures rv(r) == rexp(rv(x)) { x.exp() }
#[verifier::external_body]
fn __ln_add_exp(x: f64, y: f64) -> (r: f64) ensures rv(r) == rln(rexp(rv(x)) + rexp(rv(y))) { unimplemented!() }
#[verifier::external_body]
fn __u64_to_f64(x: u64) -> (r: f64) ensures rv(r) == x as real { x as f64 }

pub open spec fn pow_t(t: u64, a: f64) -> real { rexp(rv(a) * rln(t as real)) }

fn gen_discount_general(it: u64, discount: f64) -> (res: f64)
    requires it >= 1,
    ensures rv(res) * (pow_t(it, discount) + 1real) == pow_t(it, discount),
{
    broadcast use ideal;
    proof { ax_obeys(); }
    let numer = discount * __ln(__u64_to_f64(it));
    let denom = __ln_add_exp(numer, 0.0);
    let res = __exp(numer - denom);
    proof {
        let n = rv(numer);
        ax_exp_zero();
        ax_exp_pos(n);
        ax_exp_ln(rexp(n) + 1real);
        ax_exp_sub(n, rv(denom));
        assert(rv(denom) == rln(rexp(n) + 1real));
        assert(rv(res) == rexp(n - rv(denom)));
        assert(rexp(rv(denom)) == rexp(n) + 1real);
        assert(n == rv(discount) * rln(it as real));
    }
    res
}

} // verus!
fn main() {}
