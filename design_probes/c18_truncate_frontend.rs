use vstd::prelude::*;
use std::mem;
verus! {

pub assume_specification<T: Default> [std::mem::take] (x: &mut T) -> (r: T);

pub struct SplitsByMut<'a, T, I> {
    slice: &'a mut [T],
    lens: I,
}

impl<'a, T, I: Iterator<Item = usize>> Iterator for SplitsByMut<'a, T, I> {
    type Item = &'a mut [T];

    fn next(&mut self) -> Option<Self::Item> {
        match self.lens.next() {
            Some(len) => {
                let tmp = mem::take(&mut self.slice);
                let (ret, rest) = tmp.split_at_mut(len);
                self.slice = rest;
                Some(ret)
            }
            None => None,
        }
    }
}

pub fn split_by_mut<T, I: Iterator<Item = usize>, N: IntoIterator<IntoIter = I>>(
    slice: &mut [T],
    lens: N,
) -> SplitsByMut<'_, T, I> {
    SplitsByMut {
        slice,
        lens: lens.into_iter(),
    }
}

struct PlayerInfosetData<I, A> {
    infoset: I,
    actions: Box<[A]>,
    prev_infoset: Option<usize>,
}

impl<I, A> PlayerInfosetData<I, A> {
    fn num_actions(&self) -> usize {
        self.actions.len()
    }
}

pub struct Game<Infoset, Action> {
    player_infosets: [Box<[PlayerInfosetData<Infoset, Action>]>; 2],
}

pub struct Strategies<'a, Infoset, Action> {
    game: &'a Game<Infoset, Action>,
    probs: [Box<[f64]>; 2],
}

impl<'a, I, A> Strategies<'a, I, A> {
    pub fn truncate(&mut self, thresh: f64) {
        for (infos, box_probs) in self.game.player_infosets.iter().zip(self.probs.iter_mut()) {
            for strat in split_by_mut(
                box_probs.as_mut(),
                infos.iter().map(|info| info.num_actions()),
            ) {
                let total: f64 = strat.iter().filter(|p| p > &&thresh).sum();
                for p in strat.iter_mut() {
                    *p = if *p > thresh { *p / total } else { 0.0 }
                }
            }
        }
    }
}

} // verus!
fn main() {}
