#![feature(allocator_api)]
use vstd::prelude::*;
use std::iter::Zip;
use std::mem;
use std::num::NonZeroUsize;
use std::slice;
verus! {

pub assume_specification<T, A: core::alloc::Allocator, I: IntoIterator<Item = T>> [<Vec<T, A> as Extend<T>>::extend::<I>] (v: &mut Vec<T, A>, it: I)
    ensures final(v)@.len() >= old(v)@.len();

pub enum PlayerNum { One, Two }

impl PlayerNum {
    #[verifier::external_body]
    fn ind_mut<'a, T>(&self, arr: &'a mut [T; 2]) -> &'a mut T {
        unimplemented!()
    }
}

pub enum Node {
    Terminal(f64),
    Chance(Chance),
    Player(Player),
}
pub struct Chance { outcomes: Box<[Node]>, infoset: usize }
pub struct Player { num: PlayerNum, infoset: usize, actions: Box<[Node]> }

type ChanceIter<'a, 'b> = Zip<slice::Iter<'a, f64>, slice::Iter<'b, Node>>;

trait ChanceRecurse: Send {
    fn next_nodes<'a>(&self, chance: &'a Chance) -> ChanceIter<'_, 'a>;

    fn advance(&mut self);
}

pub struct MutexRegretInfoset {
    pub strat: Box<[f64]>,
}

#[verifier::exec_allows_no_decreases_clause]
fn thread_threshold<'a>(
    root: &'a Node,
    chance_infosets: &[impl ChanceRecurse],
    mut player_infosets: [&mut [MutexRegretInfoset]; 2],
    target: NonZeroUsize,
    queue: &mut Vec<(&'a Node, f64, [f64; 2])>,
    work: &mut Vec<(&'a Node, f64, [f64; 2])>,
)
    ensures
        (final(queue)@.len() == 0 && final(work)@.len() == 0) || final(queue)@.len() + final(work)@.len() >= target.get(),
{
    queue.push((root, 1.0, [1.0; 2]));
    while !(queue.is_empty() && work.is_empty()) && queue.len() + work.len() < target.get() {
        match queue.pop() {
            Some((Node::Terminal(_), _, _)) => {}
            Some((Node::Chance(chance), p_chance, p_player)) => {
                let info = &chance_infosets[chance.infoset];
                work.extend(
                    info.next_nodes(chance)
                        .map(|__p0| { let (prob, node) = __p0; (node, p_chance * prob, p_player) }),
                );
            }
            Some((Node::Player(player), p_chance, p_player)) => {
                let probs = &player.num.ind_mut(&mut player_infosets)[player.infoset].strat;
                for (prob, next) in probs.iter().zip(player.actions.iter()) {
                    let mut next_probs = p_player;
                    *player.num.ind_mut(&mut next_probs) = *player.num.ind_mut(&mut next_probs) * (prob);
                    work.push((next, p_chance, next_probs));
                }
            }
            None => {
                mem::swap(queue, work);
            }
        }
    }
}

} // verus!
fn main() {}
