use vstd::prelude::*;
use vstd::std_specs::cmp::*;
verus! {

// assumed IEEE facts about f64::max and < (each discharged bit-precisely by a loop-free Kani harness)
pub uninterp spec fn fmax(a: f64, b: f64) -> f64;
pub uninterp spec fn flt(a: f64, b: f64) -> bool;
pub assume_specification [f64::max] (a: f64, b: f64) -> (r: f64) ensures r == fmax(a, b);
#[verifier::external_body]
fn lt(a: f64, b: f64) -> (r: bool) ensures r == flt(a, b) { a < b }

// abstraction of the sliced-away iteration body: an uninterpreted state transformer
pub struct St { pub g: Ghost<int> }
pub uninterp spec fn step_state(s: int, it: u64) -> int;
pub uninterp spec fn regs_of(s: int) -> (f64, f64);
#[verifier::external_body]
fn step(st: &mut St, it: u64) -> (regs: [f64; 2])
    ensures final(st).g@ == step_state(old(st).g@, it), (regs[0], regs[1]) == regs_of(final(st).g@),
{ unimplemented!() }

pub open spec fn state_after(s0: int, k: nat) -> int decreases k {
    if k == 0 { s0 } else { step_state(state_after(s0, (k - 1) as nat), k as u64) }
}
pub open spec fn below(s: int, r: f64) -> bool { flt(fmax(regs_of(s).0, regs_of(s).1), r) }

fn solve_skeleton(st: &mut St, iter: u64, max_reg: f64) -> (k: Ghost<nat>)
    ensures
        k@ <= iter,
        final(st).g@ == state_after(old(st).g@, k@),
        forall|j: nat| 1 <= j < k@ ==> !below(state_after(old(st).g@, j), max_reg),
        k@ < iter ==> k@ >= 1 && below(state_after(old(st).g@, k@), max_reg),
{
    let ghost s0 = st.g@;
    let ghost mut k: nat = 0;
    let mut regs = [0.0f64; 2];
    for it in r: 1..=iter
        invariant_except_break
            k == r.index@,
            forall|j: nat| 1 <= j <= k ==> !below(state_after(s0, j), max_reg),
        invariant
            st.g@ == state_after(s0, k),
            k <= iter,
        ensures
            forall|j: nat| 1 <= j < k ==> !below(state_after(s0, j), max_reg),
            k < iter ==> k >= 1 && below(state_after(s0, k), max_reg),
    {
        regs = step(st, it);
        proof { k = k + 1; }
        let reg_one = regs[0]; let reg_two = regs[1];
        if lt(f64::max(reg_one, reg_two), max_reg) {
            break;
        }
    }
    Ghost(k)
}

} // verus!
fn main() {}
