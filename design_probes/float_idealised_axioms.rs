use vstd::prelude::*;
use vstd::std_specs::ops::*;
use vstd::std_specs::cmp::*;
use vstd::float::*;
verus! {

pub uninterp spec fn rv(x: f64) -> real;

pub broadcast axiom fn ax_add_req(a: f64, b: f64)
    ensures #[trigger] a.add_req(b);
pub broadcast axiom fn ax_add_val(a: f64, b: f64)
    ensures rv(#[trigger] a.add_spec(b)) == rv(a) + rv(b);
pub broadcast axiom fn ax_div_req(a: f64, b: f64)
    ensures #[trigger] a.div_req(b);
pub broadcast axiom fn ax_div_val(a: f64, b: f64)
    ensures rv(b) != 0real ==> rv(#[trigger] a.div_spec(b)) == rv(a) / rv(b);
pub axiom fn ax_obeys()
    ensures <f64 as AddSpec>::obeys_add_spec(), <f64 as DivSpec>::obeys_div_spec(),
            <f64 as PartialOrdSpec>::obeys_partial_cmp_spec(), <f64 as PartialEqSpec>::obeys_eq_spec();

pub broadcast group ideal {
    ax_add_req, ax_add_val, ax_div_req, ax_div_val,
}

fn add3(a: f64, b: f64, c: f64) -> (r: f64)
    ensures rv(r) == rv(a) + rv(b) + rv(c),
{
    broadcast use ideal;
    proof { ax_obeys(); }
    a + b + c
}

fn half(a: f64, b: f64) -> (r: f64)
    requires rv(b) != 0real,
    ensures rv(r) * rv(b) == rv(a),
{
    broadcast use ideal;
    proof { ax_obeys(); }
    a / b
}

fn gt(a: f64, b: f64) -> (r: bool)
{
    proof { ax_obeys(); }
    let r = a > b;
    assert(r == (a.partial_cmp_spec(&b) == Some(core::cmp::Ordering::Greater)));
    r
}

} // verus!
fn main() {}
