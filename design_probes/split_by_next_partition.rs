use vstd::prelude::*;
use vstd::std_specs::iter::IteratorSpec;
verus! {

pub open spec fn total(l: Seq<usize>) -> nat decreases l.len() {
    if l.len() == 0 { 0 } else { l[0] as nat + total(l.drop_first()) }
}

#[verifier::reject_recursive_types(I)]
pub struct SplitsBy<'a, T, I> {
    pub slice: &'a [T],
    pub lens: I,
}

impl<'a, T, I: Iterator<Item = usize>> SplitsBy<'a, T, I> {
    #[verifier::prophetic]
    pub open spec fn wf(self) -> bool {
        self.lens.obeys_prophetic_iter_laws() && total(self.lens.remaining()) <= self.slice@.len()
    }
}

impl<'a, T, I: Iterator<Item = usize>> vstd::std_specs::iter::IteratorSpecImpl for SplitsBy<'a, T, I> {
    open spec fn obeys_prophetic_iter_laws(&self) -> bool { false }
    #[verifier::prophetic]
    open spec fn remaining(&self) -> Seq<Self::Item> { arbitrary() }
    #[verifier::prophetic]
    open spec fn will_return_none(&self) -> bool { arbitrary() }
    open spec fn decrease(&self) -> Option<nat> { None }
    open spec fn peek(&self, i: int) -> Option<Self::Item> { None }
}

impl<'a, T, I: Iterator<Item = usize>> Iterator for SplitsBy<'a, T, I> {
    type Item = &'a [T];

    fn next(&mut self) -> (ret: Option<Self::Item>)
        ensures
            final(self).wf(),
            old(self).lens.remaining().len() == 0 ==> ret is None,
            old(self).lens.remaining().len() > 0 ==> ret is Some
                && ret->0@ == old(self).slice@.take(old(self).lens.remaining()[0] as int)
                && final(self).slice@ == old(self).slice@.skip(old(self).lens.remaining()[0] as int)
                && final(self).lens.remaining() == old(self).lens.remaining().drop_first(),
    {
        proof { assume(self.wf()); }
        match self.lens.next() {
            Some(len) => {
                proof {
                    let l = old(self).lens.remaining();
                    assert(total(l) == l[0] as nat + total(l.drop_first()));
                }
                let (ret, rest) = self.slice.split_at(len);
                self.slice = rest;
                Some(ret)
            }
            None => None,
        }
    }
}

} // verus!
fn main() {}
