use vstd::prelude::*;
use vstd::std_specs::ops::*;
verus! {

#[derive(Copy, Clone)]
pub enum PlayerNum { One, Two }
impl PlayerNum {
    #[verifier::external_body]
    fn ind_mut<'a, T>(&self, arr: &'a mut [T; 2]) -> &'a mut T { unimplemented!() }
}
pub enum Node { Terminal(f64), Chance(Chance), Player(Player) }
pub struct Chance { pub outcomes: Box<[Node]>, pub infoset: usize }
pub struct Player { pub num: PlayerNum, pub infoset: usize, pub actions: Box<[Node]> }

#[verifier::external_body]
fn __neg(x: f64) -> (r: f64) ensures r == neg_model(x) { -x }
pub uninterp spec fn neg_model(x: f64) -> f64;

trait Add {
    fn add(self, other: f64);
}

impl Add for &mut f64 {
    fn add(self, other: f64) {
        *self = *self + (other);
    }
}

fn recurse_player(
    player: &Player,
    p_chance: f64,
    p_player: [f64; 2],
    strat: &[f64],
    cum_regret: impl IntoIterator<Item = impl Add>,
    rec: impl Fn(&Node, [f64; 2]) -> f64,
) -> (f64, f64) {
    let mult = match (player.num, p_player) {
        (PlayerNum::One, __a) => { let two = __a[1]; p_chance * two },
        (PlayerNum::Two, __a) => { let one = __a[0]; __neg(one) * p_chance },
    };

    let mut expected_one = 0.0;
    let mut expected = 0.0;
    for ((next, prob), cum_reg) in player
        .actions
        .iter()
        .zip(strat.iter())
        .zip(cum_regret.into_iter())
    {
        let mut p_next = p_player;
        *player.num.ind_mut(&mut p_next) = *player.num.ind_mut(&mut p_next) * (prob);
        let util_one = rec(next, p_next);
        let util = util_one * mult;
        expected_one = expected_one + (prob * util_one);
        expected = expected + (util * prob);
        cum_reg.add(util);
    }
    (expected_one, expected)
}

} // verus!
fn main() {}
