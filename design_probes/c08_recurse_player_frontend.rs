use vstd::prelude::*;
use vstd::std_specs::ops::*;
use vstd::float::*;
use vstd::std_specs::iter::IteratorSpec;
verus! {

pub uninterp spec fn fmul(a: f64, b: f64) -> f64;
pub uninterp spec fn fadd(a: f64, b: f64) -> f64;
pub uninterp spec fn fneg(a: f64) -> f64;
pub broadcast axiom fn ax_mul_vv_r(a: f64, b: f64) ensures #[trigger] a.mul_req(b);
pub broadcast axiom fn ax_mul_vv(a: f64, b: f64) ensures #[trigger] a.mul_spec(b) == fmul(a, b);
pub broadcast axiom fn ax_mul_vr_r(a: f64, b: &f64) ensures #[trigger] a.mul_req(b);
pub broadcast axiom fn ax_mul_vr(a: f64, b: &f64) ensures #[trigger] a.mul_spec(b) == fmul(a, *b);
pub broadcast axiom fn ax_mul_rv_r(a: &f64, b: f64) ensures #[trigger] a.mul_req(b);
pub broadcast axiom fn ax_mul_rv(a: &f64, b: f64) ensures #[trigger] a.mul_spec(b) == fmul(*a, b);
pub broadcast axiom fn ax_add_vv_r(a: f64, b: f64) ensures #[trigger] a.add_req(b);
pub broadcast axiom fn ax_add_vv(a: f64, b: f64) ensures #[trigger] a.add_spec(b) == fadd(a, b);
pub broadcast group fl { ax_mul_vv, ax_mul_vr, ax_mul_rv, ax_add_vv, ax_mul_vv_r, ax_mul_vr_r, ax_mul_rv_r, ax_add_vv_r }
pub axiom fn ax_obeys()
    ensures <f64 as AddSpec>::obeys_add_spec(), <f64 as MulSpec>::obeys_mul_spec(), <f64 as MulSpec<&f64>>::obeys_mul_spec(), <&f64 as MulSpec<f64>>::obeys_mul_spec();

#[derive(Copy, Clone)]
pub enum PlayerNum { One, Two }
impl PlayerNum {
    #[verifier::external_body]
    fn ind_mut<'a, T>(&self, arr: &'a mut [T; 2]) -> (r: &'a mut T)
        ensures
            *r == (match *self { PlayerNum::One => old(arr)[0], PlayerNum::Two => old(arr)[1] }),
            match *self {
                PlayerNum::One => final(arr)[0] == *final(r) && final(arr)[1] == old(arr)[1],
                PlayerNum::Two => final(arr)[1] == *final(r) && final(arr)[0] == old(arr)[0],
            },
    { unimplemented!() }
}
pub enum Node { Terminal(f64), Chance(Chance), Player(Player) }
pub struct Chance { pub outcomes: Box<[Node]>, pub infoset: usize }
pub struct Player { pub num: PlayerNum, pub infoset: usize, pub actions: Box<[Node]> }

#[verifier::external_body]
fn __neg(x: f64) -> (r: f64) ensures r == fneg(x) { -x }

trait Add: Sized {
    #[verifier::prophetic]
    spec fn added(self, other: f64) -> bool;
    fn add(self, other: f64)
        ensures self.added(other);
}

fn mult_of(player: &Player, p_chance: f64, p_player: [f64; 2]) -> (mult: f64)
    ensures mult == (match player.num { PlayerNum::One => fmul(p_chance, p_player[1]), PlayerNum::Two => fmul(fneg(p_player[0]), p_chance) }),
{
    broadcast use fl;
    proof { ax_obeys(); }
    let mult = match (player.num, p_player) {
        (PlayerNum::One, __a) => { let two = __a[1]; p_chance * two },
        (PlayerNum::Two, __a) => { let one = __a[0]; __neg(one) * p_chance },
    };
    mult
}


pub open spec fn pnext_of(player: Player, p_player: [f64; 2], prob: f64) -> [f64; 2] {
    match player.num {
        PlayerNum::One => [fmul(p_player[0], prob), p_player[1]],
        PlayerNum::Two => [p_player[0], fmul(p_player[1], prob)],
    }
}

fn recurse_player<A: Add, C: IntoIterator<Item = A>, F: Fn(&Node, [f64; 2]) -> f64>(
    player: &Player,
    p_chance: f64,
    p_player: [f64; 2],
    strat: &[f64],
    cum_regret: C,
    rec: F,
) -> (out: (f64, f64))
    requires
        forall|n: &Node, p: [f64; 2]| rec.requires((n, p)),
{
    broadcast use fl;
    proof { ax_obeys(); }
    let mult = mult_of(player, p_chance, p_player);

    let mut expected_one = 0.0;
    let mut expected = 0.0;
    for ((next, prob), cum_reg) in it: player
        .actions
        .iter()
        .zip(strat.iter())
        .zip(cum_regret.into_iter())
        invariant
            forall|n: &Node, p: [f64; 2]| rec.requires((n, p)),
    {
        broadcast use fl;
        proof { ax_obeys(); }
        let mut p_next = p_player;
        *player.num.ind_mut(&mut p_next) = *player.num.ind_mut(&mut p_next) * (prob);
        let util_one = rec(next, p_next);
        let util = util_one * mult;
        expected_one = expected_one + (prob * util_one);
        expected = expected + (util * prob);
        cum_reg.add(util);
    }
    (expected_one, expected)
}
} // verus!
fn main() {}
