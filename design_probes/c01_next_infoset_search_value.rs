#![feature(sized_hierarchy)]
use vstd::prelude::*;
use vstd::std_specs::ops::*;
use vstd::std_specs::cmp::*;
use vstd::float::*;
verus! {

#[verifier::external_trait_specification]
pub trait ExAsRef<T: core::marker::PointeeSized>: core::marker::PointeeSized {
    type ExternalTraitSpecificationFor: core::convert::AsRef<T>;
    fn as_ref(&self) -> (r: &T)
        ensures r == asref_view::<Self, T>(self);
}
pub uninterp spec fn asref_view<S: core::marker::PointeeSized, T: core::marker::PointeeSized>(s: &S) -> &T;

#[derive(Copy, Clone)]
pub enum PlayerNum { One, Two }

impl PlayerNum {
    #[verifier::external_body]
    fn ind<'a, T>(&self, arr: &'a [T; 2]) -> (r: &'a T)
        ensures *r == (match *self { PlayerNum::One => arr[0], PlayerNum::Two => arr[1] })
    { unimplemented!() }
}

pub enum Node {
    Terminal(f64),
    Chance(Chance),
    Player(Player),
}
pub struct Chance { pub outcomes: Box<[Node]>, pub infoset: usize }
pub struct Player { pub num: PlayerNum, pub infoset: usize, pub actions: Box<[Node]> }

pub trait ChanceInfoset {
    spec fn probs_view(&self) -> Seq<f64>;
    fn probs(&self) -> (r: &[f64])
        ensures r@ == self.probs_view();
}

// ---------- idealised reals ----------
pub uninterp spec fn rv(x: f64) -> real;
pub broadcast axiom fn ax_add_req(a: f64, b: f64) ensures #[trigger] a.add_req(b);
pub broadcast axiom fn ax_add_val(a: f64, b: f64) ensures rv(#[trigger] a.add_spec(b)) == rv(a) + rv(b);
pub broadcast axiom fn ax_mul_req(a: f64, b: f64) ensures #[trigger] a.mul_req(b);
pub broadcast axiom fn ax_mul_val(a: f64, b: f64) ensures rv(#[trigger] a.mul_spec(b)) == rv(a) * rv(b);
pub broadcast axiom fn ax_mul_req_vr(a: f64, b: &f64) ensures #[trigger] a.mul_req(b);
pub broadcast axiom fn ax_mul_val_vr(a: f64, b: &f64) ensures rv(#[trigger] a.mul_spec(b)) == rv(a) * rv(*b);
pub broadcast axiom fn ax_mul_req_rv(a: &f64, b: f64) ensures #[trigger] a.mul_req(b);
pub broadcast axiom fn ax_mul_val_rv(a: &f64, b: f64) ensures rv(#[trigger] a.mul_spec(b)) == rv(*a) * rv(b);
pub broadcast axiom fn ax_sub_req(a: f64, b: f64) ensures #[trigger] a.sub_req(b);
pub broadcast axiom fn ax_sub_val(a: f64, b: f64) ensures rv(#[trigger] a.sub_spec(b)) == rv(a) - rv(b);
pub broadcast axiom fn ax_cmp(a: f64, b: f64)
    ensures (#[trigger] a.partial_cmp_spec(&b) == Some(core::cmp::Ordering::Greater)) == (rv(a) > rv(b));
pub broadcast axiom fn ax_cmp_ref(a: &f64, b: &f64)
    ensures (#[trigger] a.partial_cmp_spec(&b) == Some(core::cmp::Ordering::Greater)) == (rv(*a) > rv(*b));
pub axiom fn ax_obeys()
    ensures <f64 as AddSpec>::obeys_add_spec(), <f64 as SubSpec>::obeys_sub_spec(), <f64 as MulSpec>::obeys_mul_spec(),
            <f64 as PartialOrdSpec>::obeys_partial_cmp_spec(), <f64 as PartialEqSpec>::obeys_eq_spec(), <&f64 as PartialOrdSpec<&f64>>::obeys_partial_cmp_spec(),
            rv(0.0f64) == 0real, rv(1.0f64) == 1real;
pub broadcast group ideal { ax_sub_req, ax_sub_val, ax_add_req, ax_add_val, ax_mul_req, ax_mul_val, ax_cmp, ax_mul_req_vr, ax_mul_val_vr, ax_mul_req_rv, ax_mul_val_rv, ax_cmp_ref }

// ---------- specification: expectation of a tree ----------
pub struct Ctx { pub chance: Seq<Seq<f64>>, pub s1: Seq<Seq<f64>>, pub s2: Seq<Seq<f64>> }

pub open spec fn kids_of(n: Node) -> Seq<Node> {
    match n {
        Node::Terminal(_) => Seq::empty(),
        Node::Chance(ch) => ch.outcomes@,
        Node::Player(pl) => pl.actions@,
    }
}
pub open spec fn weights_of(n: Node, c: Ctx) -> Seq<f64> {
    match n {
        Node::Terminal(_) => Seq::empty(),
        Node::Chance(ch) => c.chance[ch.infoset as int],
        Node::Player(pl) => match pl.num { PlayerNum::One => c.s1[pl.infoset as int], PlayerNum::Two => c.s2[pl.infoset as int] },
    }
}
pub open spec fn ev(n: Node, c: Ctx) -> real
    decreases n, 1int, 0int
{
    match n {
        Node::Terminal(p) => rv(p),
        _ => sum_kids(n, c, kids_of(n).len() as int),
    }
}
pub open spec fn sum_kids(parent: Node, c: Ctx, k: int) -> real
    decreases parent, 0int, k
{
    if k <= 0 || k > kids_of(parent).len() { 0real } else {
        sum_kids(parent, c, k - 1) + rv(weights_of(parent, c)[k - 1]) * ev(kids_of(parent)[k - 1], c)
    }
}
pub open spec fn wf_node(n: Node, c: Ctx) -> bool
    decreases n
{
    match n {
        Node::Terminal(_) => true,
        Node::Chance(ch) => ch.infoset < c.chance.len() && weights_of(n, c).len() == kids_of(n).len()
            && forall|i: int| 0 <= i < kids_of(n).len() ==> wf_node(#[trigger] kids_of(n)[i], c),
        Node::Player(pl) => {
            (match pl.num { PlayerNum::One => pl.infoset < c.s1.len(), PlayerNum::Two => pl.infoset < c.s2.len() })
            && weights_of(n, c).len() == kids_of(n).len()
            && (forall|i: int| 0 <= i < kids_of(n).len() ==> rv(#[trigger] weights_of(n, c)[i]) >= 0real)
            && forall|i: int| 0 <= i < kids_of(n).len() ==> wf_node(#[trigger] kids_of(n)[i], c)
        }
    }
}
pub open spec fn qsum(q: Seq<(&Node, f64)>, c: Ctx) -> real
    decreases q.len()
{
    if q.len() == 0 { 0real } else { qsum(q.drop_last(), c) + rv(q.last().1) * ev(*q.last().0, c) }
}
pub open spec fn ctx_of<C: ChanceInfoset, S: AsRef<[f64]>>(chance_info: &[C], strat_info: [&[S]; 2]) -> Ctx {
    Ctx {
        chance: Seq::new(chance_info@.len(), |i: int| chance_info@[i].probs_view()),
        s1: Seq::new(strat_info[0]@.len(), |i: int| asref_view::<S, [f64]>(&strat_info[0]@[i])@),
        s2: Seq::new(strat_info[1]@.len(), |i: int| asref_view::<S, [f64]>(&strat_info[1]@[i])@),
    }
}

proof fn lemma_qsum_push(q: Seq<(&Node, f64)>, e: (&Node, f64), c: Ctx)
    ensures qsum(q.push(e), c) == qsum(q, c) + rv(e.1) * ev(*e.0, c)
{
    assert(q.push(e).drop_last() =~= q);
}

proof fn lemma_dist(r: real, a: real, w: real, e: real)
    ensures r * (a + w * e) == r * a + (w * r) * e
{
    assert(r * (a + w * e) == r * a + (w * r) * e) by(nonlinear_arith);
}



pub struct DeviationInfo<'a> {
    pub future_nodes: usize,
    pub prob_nodes: Vec<(&'a Player, f64)>,
    pub max_utility: f64,
}

// ---- specification: value of a continuation up to the deviating player's next infosets ----
pub struct VCtx { pub chance: Seq<Seq<f64>>, pub opp: Seq<Seq<f64>>, pub utab: Seq<f64>, pub p1: bool }

pub open spec fn own(n: Node, p1: bool) -> bool {
    match n { Node::Player(pl) => (match pl.num { PlayerNum::One => p1, PlayerNum::Two => !p1 }), _ => false }
}
pub open spec fn vweights(n: Node, c: VCtx) -> Seq<f64> {
    match n {
        Node::Terminal(_) => Seq::empty(),
        Node::Chance(ch) => c.chance[ch.infoset as int],
        Node::Player(pl) => c.opp[pl.infoset as int],
    }
}
pub open spec fn val(n: Node, c: VCtx) -> real
    decreases n, 1int, 0int
{
    match n {
        Node::Terminal(p) => if c.p1 { rv(p) } else { 0real - rv(p) },
        Node::Player(pl) => if own(n, c.p1) { rv(c.utab[pl.infoset as int]) } else { vsum(n, c, kids_of(n).len() as int) },
        Node::Chance(_) => vsum(n, c, kids_of(n).len() as int),
    }
}
pub open spec fn vsum(parent: Node, c: VCtx, k: int) -> real
    decreases parent, 0int, k
{
    if k <= 0 || k > kids_of(parent).len() { 0real } else {
        vsum(parent, c, k - 1) + rv(vweights(parent, c)[k - 1]) * val(kids_of(parent)[k - 1], c)
    }
}
pub open spec fn vwf(n: Node, c: VCtx) -> bool
    decreases n
{
    match n {
        Node::Terminal(_) => true,
        Node::Chance(ch) => ch.infoset < c.chance.len() && vweights(n, c).len() == kids_of(n).len()
            && forall|i: int| 0 <= i < kids_of(n).len() ==> vwf(#[trigger] kids_of(n)[i], c),
        Node::Player(pl) => if own(n, c.p1) { pl.infoset < c.utab.len() } else {
            pl.infoset < c.opp.len() && vweights(n, c).len() == kids_of(n).len()
            && (forall|i: int| 0 <= i < kids_of(n).len() ==> rv(#[trigger] vweights(n, c)[i]) >= 0real)
            && forall|i: int| 0 <= i < kids_of(n).len() ==> vwf(#[trigger] kids_of(n)[i], c)
        },
    }
}
pub open spec fn vqsum(q: Seq<(&Node, f64)>, c: VCtx) -> real
    decreases q.len()
{
    if q.len() == 0 { 0real } else { vqsum(q.drop_last(), c) + rv(q.last().1) * val(*q.last().0, c) }
}
pub open spec fn vctx_of<C: ChanceInfoset, S: AsRef<[f64]>>(p1: bool, infosets: &[DeviationInfo], chance_info: &[C], strat_info: &[S]) -> VCtx {
    VCtx {
        chance: Seq::new(chance_info@.len(), |i: int| chance_info@[i].probs_view()),
        opp: Seq::new(strat_info@.len(), |i: int| asref_view::<S, [f64]>(&strat_info@[i])@),
        utab: Seq::new(infosets@.len(), |i: int| infosets@[i].max_utility),
        p1: p1,
    }
}
proof fn lemma_vqsum_push(q: Seq<(&Node, f64)>, e: (&Node, f64), c: VCtx)
    ensures vqsum(q.push(e), c) == vqsum(q, c) + rv(e.1) * val(*e.0, c)
{
    assert(q.push(e).drop_last() =~= q);
}

#[verifier::exec_allows_no_decreases_clause]
pub fn next_infoset_search<'a, const PLAYER_ONE: bool, C: ChanceInfoset, S: AsRef<[f64]>>(
    start: &'a Node,
    search_queue: &mut Vec<(&'a Node, f64)>,
    infosets: &[DeviationInfo],
    chance_info: &[C],
    strat_info: &[S],
) -> (out: f64)
    requires
        old(search_queue)@.len() == 0,
        vwf(*start, vctx_of(PLAYER_ONE, infosets, chance_info, strat_info)),
    ensures
        final(search_queue)@.len() == 0,
        rv(out) == val(*start, vctx_of(PLAYER_ONE, infosets, chance_info, strat_info)),
{
    broadcast use ideal;
    proof { ax_obeys(); }
    let ghost c = vctx_of(PLAYER_ONE, infosets, chance_info, strat_info);
    let mut res = 0.0;
    search_queue.push((start, 1.0));
    proof {
        assert(search_queue@ =~= Seq::<(&Node, f64)>::empty().push((start, 1.0f64)));
        lemma_vqsum_push(Seq::<(&Node, f64)>::empty(), (start, 1.0f64), c);
    }
    while let Some((node, reach)) = search_queue.pop()
        invariant
            c == vctx_of(PLAYER_ONE, infosets, chance_info, strat_info),
            forall|i: int| 0 <= i < search_queue@.len() ==> vwf(*(#[trigger] search_queue@[i]).0, c),
            rv(res) + vqsum(search_queue@, c) == val(*start, c),
        ensures
            search_queue@.len() == 0,
    {
        broadcast use ideal;
        proof { ax_obeys(); }
        match node {
            Node::Terminal(payoff) => {
                if PLAYER_ONE {
                    res = res + (payoff * reach);
                } else {
                    res = res - (payoff * reach);
                }
            }
            Node::Chance(chance) => {
                let probs = chance_info[chance.infoset].probs();
                let ghost q0 = search_queue@;
                proof { assert(vsum(*node, c, 0) == 0real); }
                for (prob, next) in it: probs.iter().zip(chance.outcomes.iter())
                    invariant
                        c == vctx_of(PLAYER_ONE, infosets, chance_info, strat_info),
                        vwf(*node, c),
                        *node == Node::Chance(*chance),
                        probs@ == vweights(*node, c),
                        probs@.len() == chance.outcomes@.len(),
                        0 <= it.index@ <= probs@.len(),
                        forall|i: int| 0 <= i < search_queue@.len() ==> vwf(*(#[trigger] search_queue@[i]).0, c),
                        vqsum(search_queue@, c) == vqsum(q0, c) + rv(reach) * vsum(*node, c, it.index@),
                {
                    broadcast use ideal;
                    proof { ax_obeys(); }
                    let ghost k = it.index@;
                    let ghost qb = search_queue@;
                    search_queue.push((next, prob * reach));
                    proof {
                        lemma_vqsum_push(qb, (next, (*prob).mul_spec(reach)), c);
                        assert(kids_of(*node)[k] == *next);
                        assert(vsum(*node, c, k + 1) == vsum(*node, c, k) + rv(probs@[k]) * val(*next, c));
                        lemma_dist(rv(reach), vsum(*node, c, k), rv(*prob), val(*next, c));
                    }
                }
            }
            Node::Player(player) => match (player.num, PLAYER_ONE) {
                (PlayerNum::One, true) | (PlayerNum::Two, false) => {
                    let info = &infosets[player.infoset];
                    res = res + (info.max_utility * reach);
                }
                (PlayerNum::One, false) | (PlayerNum::Two, true) => {
                    let probs = strat_info[player.infoset].as_ref();
                    let ghost q0 = search_queue@;
                    proof { assert(vsum(*node, c, 0) == 0real); }
                    for (prob, next) in it: probs.iter().zip(player.actions.iter())
                        invariant
                            c == vctx_of(PLAYER_ONE, infosets, chance_info, strat_info),
                            vwf(*node, c),
                            *node == Node::Player(*player),
                            !own(*node, c.p1),
                            probs@ == vweights(*node, c),
                            probs@.len() == player.actions@.len(),
                            0 <= it.index@ <= probs@.len(),
                            forall|i: int| 0 <= i < search_queue@.len() ==> vwf(*(#[trigger] search_queue@[i]).0, c),
                            vqsum(search_queue@, c) == vqsum(q0, c) + rv(reach) * vsum(*node, c, it.index@),
                    {
                        broadcast use ideal;
                        proof { ax_obeys(); }
                        let ghost k = it.index@;
                        let ghost qb = search_queue@;
                        proof {
                            assert(kids_of(*node)[k] == *next);
                            assert(vsum(*node, c, k + 1) == vsum(*node, c, k) + rv(probs@[k]) * val(*next, c));
                            assert(rv(vweights(*node, c)[k]) >= 0real);
                        }
                        if prob > &0.0 {
                            search_queue.push((next, prob * reach));
                        }
                        proof {
                            let w = rv(*prob); let r = rv(reach); let e = val(*next, c);
                            lemma_dist(r, vsum(*node, c, k), w, e);
                            if w > 0real {
                                lemma_vqsum_push(qb, (next, (*prob).mul_spec(reach)), c);
                            } else {
                                assert((w * r) * e == 0real) by(nonlinear_arith) requires w == 0real;
                                assert(w * e == 0real) by(nonlinear_arith) requires w == 0real;
                            }
                        }
                    }
                }
            },
        }
        proof {
            let r = rv(reach);
            let v = val(*node, c);
            assert(r * (0real - v) == 0real - v * r) by(nonlinear_arith);
            assert(r * v == v * r) by(nonlinear_arith);
            if let Node::Terminal(p) = *node {
                let pv = rv(p);
                assert(r * (0real - pv) == 0real - pv * r) by(nonlinear_arith);
                assert(r * pv == pv * r) by(nonlinear_arith);
            }
        }
    }
    proof { assert(vqsum(search_queue@, c) == 0real); }
    res
}

} // verus!
fn main() {}
