use cfr::{Game, GameNode, IntoGameNode, PlayerNum, RegretParams, SolveMethod};

struct N(GameNode<N>);
impl IntoGameNode for N {
    type PlayerInfo = String;
    type Action = u8;
    type ChanceInfo = u64;
    type Outcomes = Vec<(f64, N)>;
    type Actions = Vec<(u8, N)>;
    fn into_game_node(self) -> GameNode<Self> { self.0 }
}

fn build(depth: usize, path: String, seed: &mut u64) -> N {
    *seed = seed.wrapping_mul(6364136223846793005).wrapping_add(1442695040888963407);
    if depth == 0 {
        return N(GameNode::Terminal(((*seed >> 33) % 11) as f64 - 5.0));
    }
    let nact = 2 + ((*seed >> 40) % 2) as u8;
    let who = if depth % 2 == 0 { PlayerNum::One } else { PlayerNum::Two };
    let acts = (0..nact).map(|a| (a, build(depth - 1, format!("{}{}", path, a), seed))).collect();
    N(GameNode::Player(who, path, acts))
}

#[test]
fn thread_invariance() {
    for gseed in 0..20u64 {
        let mut seed = gseed;
        let game = Game::from_root(build(4, String::new(), &mut seed)).unwrap();
        for iters in [1u64, 2, 3, 4, 7] {
            let (s1, b1) = game.solve(SolveMethod::Full, iters, 0.0, 1, Some(RegretParams::vanilla())).unwrap();
            for k in [2usize, 3, 4] {
                let (sk, bk) = game.solve(SolveMethod::Full, iters, 0.0, k, Some(RegretParams::vanilla())).unwrap();
                let d = s1.distance(&sk, 1.0);
                let db = (b1.regret_bound() - bk.regret_bound()).abs();
                if d[0] > 1e-9 || d[1] > 1e-9 || db > 1e-9 {
                    println!("MISMATCH game={} iters={} threads={} dist={:?} bound1={} boundk={}", gseed, iters, k, d, b1.regret_bound(), bk.regret_bound());
                }
            }
        }
    }
}
