use vstd::prelude::*;
verus! {

// ----- R5: assumed contracts for what the slice does not keep -----
pub struct NodeRef { pub id: usize }
pub struct Payoffs { pub n: Ghost<nat> }     // stands for HashMap<ByAddress<&Node>, f64>; only its size matters here
impl Payoffs {
    pub closed spec fn len(&self) -> nat { self.n@ }
    #[verifier::external_body]
    fn clear(&mut self) ensures final(self).len() == 0 { unimplemented!() }
}
// `payoffs.par_extend(queue.par_drain(..).map(closure))`: rayon doc — drains the whole vector
#[verifier::external_body]
fn par_extend_drain(payoffs: &mut Payoffs, queue: &mut Vec<(NodeRef, f64, [f64; 2])>)
    ensures final(queue)@.len() == 0, final(payoffs).len() <= old(payoffs).len() + old(queue)@.len(),
{ unimplemented!() }

// proved separately on the real text (C06.V.thread_threshold.exit): only this is known to callers
#[verifier::external_body]
fn thread_threshold(target: usize, queue: &mut Vec<(NodeRef, f64, [f64; 2])>, work: &mut Vec<(NodeRef, f64, [f64; 2])>)
    requires old(queue)@.len() == 0, old(work)@.len() == 0, target >= 1,
    ensures (final(queue)@.len() == 0 && final(work)@.len() == 0) || final(queue)@.len() + final(work)@.len() >= target,
{ unimplemented!() }

#[verifier::external_body]
fn abstract_rest(it: u64) -> (regs: [f64; 2]) { unimplemented!() }
#[verifier::external_body]
fn below(regs: [f64; 2], max_reg: f64) -> bool { unimplemented!() }

// ----- the kept skeleton of the closure body in solve_generic_multi (unchanged tree) -----
fn skeleton(iter: u64, max_reg: f64, target: usize)
    requires target >= 1,
{
    let mut queue: Vec<(NodeRef, f64, [f64; 2])> = Vec::with_capacity(target);
    let mut work: Vec<(NodeRef, f64, [f64; 2])> = Vec::with_capacity(target);
    let mut payoffs = Payoffs { n: Ghost(0) };
    assume(payoffs.len() == 0);
    for it in r: 1..=iter
        invariant
            target >= 1,
            queue@.len() == 0, work@.len() == 0, payoffs.len() == 0,   // C06 workspace_fresh
    {
        thread_threshold(target, &mut queue, &mut work);
        par_extend_drain(&mut payoffs, &mut queue);
        let regs = abstract_rest(it);
        if below(regs, max_reg) {
            break;
        }
    }
}

} // verus!
fn main() {}
