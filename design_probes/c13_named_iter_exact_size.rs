use vstd::prelude::*;
use vstd::std_specs::iter::IteratorSpec;
use std::iter::{self, FusedIterator, Once, Zip};
use std::slice;
verus! {

#[verifier::reject_recursive_types(T)]
#[verifier::external_type_specification]
#[verifier::external_body]
pub struct ExOnce<T>(std::iter::Once<T>);
pub assume_specification<T> [std::iter::once] (x: T) -> std::iter::Once<T>;

#[derive(Debug)]
struct PlayerInfosetData<I, A> {
    infoset: I,
    actions: Box<[A]>,
    prev_infoset: Option<usize>,
}

impl<I, A> PlayerInfosetData<I, A> {
    fn num_actions(&self) -> (r: usize)
        ensures r == self.actions@.len()
    {
        self.actions.len()
    }
}

#[verifier::reject_recursive_types(Infoset)]
#[verifier::reject_recursive_types(Action)]
pub struct NamedStrategyIter<'a, Infoset, Action> {
    info: &'a [PlayerInfosetData<Infoset, Action>],
    probs: &'a [f64],
    singles: slice::Iter<'a, (Infoset, Action)>,
}

spec fn total_actions<I, A>(info: Seq<PlayerInfosetData<I, A>>) -> nat
    decreases info.len()
{
    if info.len() == 0 { 0 } else { info[0].actions@.len() + total_actions(info.drop_first()) }
}

impl<'a, I, A> NamedStrategyIter<'a, I, A> {
    pub closed spec fn wf(self) -> bool {
        self.probs@.len() == total_actions(self.info@)
    }
    #[verifier::prophetic]
    pub closed spec fn rem(self) -> int {
        (self.info@.len() + self.singles.remaining().len()) as int
    }

    fn new(info: &'a [PlayerInfosetData<I, A>], probs: &'a [f64], singles: &'a [(I, A)]) -> (r: Self)
        requires probs@.len() == total_actions(info@),
        ensures r.wf(), r.info@ == info@, 
    {
        NamedStrategyIter {
            info,
            probs,
            singles: singles.iter(),
        }
    }
}

impl<'a, I, A> Iterator for NamedStrategyIter<'a, I, A> {
    type Item = (&'a I, NamedStrategyActionIter<'a, A>);

    fn next(&mut self) -> (ret: Option<Self::Item>)
        ensures
            final(self).wf(),
            (ret is Some) == (old(self).rem() > 0),
            final(self).rem() == (if old(self).rem() > 0 { old(self).rem() - 1 } else { 0 }),
    {
        proof { assume(self.wf()); }
        proof {
            if self.info@.len() > 0 {
                assert(total_actions(self.info@) == self.info@[0].actions@.len() + total_actions(self.info@.drop_first()));
            }
        }
        if let Some((info, rest_infos)) = self.info.split_first() {
            let (probs, rest_probs) = self.probs.split_at(info.num_actions());
            self.info = rest_infos;
            self.probs = rest_probs;
            Some((
                &info.infoset,
                NamedStrategyActionIter {
                    iter: ActionType::Data(info.actions.iter().zip(probs.iter())),
                },
            ))
        } else if let Some((info, act)) = self.singles.next() {
            Some((
                info,
                NamedStrategyActionIter {
                    iter: ActionType::Single(iter::once(act)),
                },
            ))
        } else {
            None
        }
    }

    fn size_hint(&self) -> (r: (usize, Option<usize>))
        ensures r.0 == self.rem(), r.1 == Some(r.0),
    {
        proof { assume(self.wf()); assume(self.probs@.len() <= isize::MAX && self.info@.len() <= isize::MAX && self.singles.remaining().len() <= isize::MAX); }
        let len = self.probs.len() + self.singles.len();
        (len, Some(len))
    }
}

#[verifier::reject_recursive_types(Action)]
pub struct NamedStrategyActionIter<'a, Action> {
    iter: ActionType<'a, Action>,
}

#[verifier::reject_recursive_types(A)]
enum ActionType<'a, A> {
    Data(Zip<slice::Iter<'a, A>, slice::Iter<'a, f64>>),
    Single(Once<&'a A>),
}

impl<'a, I, A> vstd::std_specs::iter::IteratorSpecImpl for NamedStrategyIter<'a, I, A> {
    open spec fn obeys_prophetic_iter_laws(&self) -> bool { false }
    #[verifier::prophetic]
    open spec fn remaining(&self) -> Seq<Self::Item> { arbitrary() }
    #[verifier::prophetic]
    open spec fn will_return_none(&self) -> bool { arbitrary() }
    open spec fn decrease(&self) -> Option<nat> { None }
    open spec fn peek(&self, i: int) -> Option<Self::Item> { None }
}

impl<'a, A> Iterator for NamedStrategyActionIter<'a, A> {
    type Item = (&'a A, f64);

    #[verifier::external_body]
    fn next(&mut self) -> Option<Self::Item> {
        match &mut self.iter {
            ActionType::Data(zip) => zip
                .find(|(_, prob)| prob > &&0.0)
                .map(|(act, &prob)| (act, prob)),
            ActionType::Single(once) => once.next().map(|a| (a, 1.0)),
        }
    }

    fn size_hint(&self) -> (usize, Option<usize>) {
        let len = match &self.iter {
            ActionType::Data(zip) => zip.len(),
            ActionType::Single(once) => once.len(),
        };
        (len, Some(len))
    }
}

} // verus!
fn main() {}
