use vstd::prelude::*;
use vstd::std_specs::ops::*;
use vstd::std_specs::cmp::*;
use vstd::float::*;
verus! {

pub uninterp spec fn rv(x: f64) -> real;
pub broadcast axiom fn ax_sub_req(a: f64, b: &f64) ensures #[trigger] a.sub_req(b);
pub broadcast axiom fn ax_sub_val(a: f64, b: &f64) ensures rv(#[trigger] a.sub_spec(b)) == rv(a) - rv(*b);
pub broadcast axiom fn ax_sub_req_vv(a: f64, b: f64) ensures #[trigger] a.sub_req(b);
pub broadcast axiom fn ax_sub_val_vv(a: f64, b: f64) ensures rv(#[trigger] a.sub_spec(b)) == rv(a) - rv(b);
pub broadcast axiom fn ax_lt_ref(a: &f64, b: &f64)
    ensures (#[trigger] a.partial_cmp_spec(&b) == Some(core::cmp::Ordering::Less)) == (rv(*a) < rv(*b));
pub axiom fn ax_obeys()
    ensures <f64 as SubSpec<&f64>>::obeys_sub_spec(), <f64 as SubSpec<f64>>::obeys_sub_spec(), <&f64 as PartialOrdSpec<&f64>>::obeys_partial_cmp_spec();
pub broadcast group ideal { ax_sub_req, ax_sub_val, ax_lt_ref, ax_sub_req_vv, ax_sub_val_vv }

// R5: the parts of rand that the function touches
pub trait Rng {
    spec fn next_f64(&self) -> f64;
    fn gen(&mut self) -> (r: f64) ensures r == old(self).next_f64();
}
pub trait Distribution<T> {
    fn sample<R>(&self, rnd: &mut R) -> T where R: Rng + ?Sized;
}

pub struct Multinomial<'a> {
    pub init_probs: &'a [f64],
}

pub open spec fn cum(p: Seq<f64>, k: int) -> real decreases k {
    if k <= 0 { 0real } else { cum(p, k - 1) + rv(p[k - 1]) }
}

impl Distribution<usize> for Multinomial<'_> {
    fn sample<R>(&self, rnd: &mut R) -> (res: usize)
    where
        R: Rng + ?Sized,
        ensures
            res <= self.init_probs@.len(),
            cum(self.init_probs@, res as int) < rv(old(rnd).next_f64()) || res == 0,
            res < self.init_probs@.len() ==> rv(old(rnd).next_f64()) <= cum(self.init_probs@, res as int + 1),
            forall|j: int| 0 < j <= res ==> cum(self.init_probs@, j) < rv(old(rnd).next_f64()),
    {
        let mut remaining: f64 = rnd.gen();
        let mut res = 0;
        let ghost u = remaining;
        for val in it: self.init_probs
            invariant_except_break
                res == it.index@,
            invariant
                res <= self.init_probs@.len(), self.init_probs@.len() == self.init_probs.len(),
                rv(remaining) == rv(u) - cum(self.init_probs@, res as int),
                forall|j: int| 0 < j <= res ==> cum(self.init_probs@, j) < rv(u),
            ensures
                res < self.init_probs@.len() ==> rv(u) <= cum(self.init_probs@, res as int + 1),
        {
            broadcast use ideal;
            proof { ax_obeys(); }
            if val < &remaining {
                remaining = remaining - (val);
                res = res + (1);
            } else {
                break;
            }
        }
        res
    }
}

} // verus!
fn main() {}
