use vstd::prelude::*;
verus! {

// R5: rand / rand_distr boundary
#[verifier::external_body]
pub struct WeightedAliasIndex { _p: core::marker::PhantomData<f64> }
#[verifier::external_body]
pub struct ThreadRng { }
#[verifier::external_body]
pub fn thread_rng() -> ThreadRng { unimplemented!() }
pub uninterp spec fn alias_len(w: &WeightedAliasIndex) -> nat;
impl WeightedAliasIndex {
    // rand_distr documentation: returns an index into the weights it was built from
    #[verifier::external_body]
    pub fn sample(&self, rng: &mut ThreadRng) -> (r: usize)
        ensures r < alias_len(self), r < usize::MAX
    { unimplemented!() }
}

pub struct SampledChance {
    pub index: WeightedAliasIndex,
    pub cached: usize,
}

impl SampledChance {
    pub fn sample(&mut self) -> (r: usize)
        ensures
            old(self).cached != 0 ==> r == old(self).cached - 1 && final(self).cached == old(self).cached,
            old(self).cached == 0 ==> final(self).cached == r + 1 && r < alias_len(&old(self).index),
            final(self).cached != 0,
    {
        if self.cached == 0 {
            let res = self.index.sample(&mut thread_rng());
            self.cached = res + 1;
            res
        } else {
            self.cached - 1
        }
    }

    pub fn reset(&mut self)
        ensures final(self).cached == 0,
    {
        self.cached = 0;
    }
}

} // verus!
fn main() {}
