use vstd::prelude::*;
use vstd::std_specs::iter::IteratorSpec;
verus! {

fn zero_all(v: &mut [u64]) 
    ensures final(v)@.len() == old(v)@.len(),
       forall|i: int| 0 <= i < final(v)@.len() ==> final(v)@[i] == 0,
{
    let ghost n = v@.len();
    for p in it: v.iter_mut() 
        invariant 
            it.snapshot@.remaining().len() == n,
            0 <= it.index@ <= n,
            forall|i: int| 0 <= i < it.index@ ==> *final(#[trigger] it.snapshot@.remaining()[i]) == 0,
        ensures
            forall|i: int| 0 <= i < n ==> *final(#[trigger] it.snapshot@.remaining()[i]) == 0,
    {
        assert(p == it.snapshot@.remaining()[it.index@]);
        *p = 0;
    }
}

} // verus!
fn main() {}
